"""C02 bounded stand-in: save -> load round trips of sessions built from the public API, compared observationally
(bounded.session_oracle.snapshot: labels, component order, values, kinds, units, styles, metadata, coordinates, subset masks and
styles, accessible linked attributes, key joins, groups, number of links), plus idempotence (save(load(save(x))) restores to the same
thing).  A save that raises is "fails loudly" and accepted; a load that raises, or any observable difference, is a failure.

Universes (enumerated by introspection on every run, so a new class without a builder shows up as 'no-builder'):
  every SubsetState subclass, every Roi subclass (inside the selections that can hold it, with and without pre-transforms),
  every link helper / ComponentLink subclass, every Coordinates subclass, component kinds, styles, metadata, key-join shapes,
  duplicate labels, include_data on (in-memory data) and off (datasets read from files, re-read on load).
"""
import inspect
import itertools
import os
import random
import shutil
import tempfile
import warnings

import numpy as np

from bounded.session_oracle import snapshot, diff

ASPECTS = {'n_data', 'label', 'shape', 'components', 'main_components', 'derived_components', 'values', 'kinds', 'units', 'style', 'uuid', 'meta', 'coords',
           'subsets', 'n_subsets', 'linked', 'key_joins', 'groups', 'n_groups', 'n_links'}


# bases that are only ever instantiated through subclasses (forwards/backwards or the transformation are left to the subclass)
ABSTRACT_BASES = ('BaseMultiLink', 'BaseCelestialMultiLink', 'CompositeSubsetState', 'VertexROIBase', 'LegacyCoordinates', 'Coordinates', 'Roi')


def all_subclasses(c):
    out = []
    for s in c.__subclasses__():
        if s not in out:
            out.append(s)
        for t in all_subclasses(s):
            if t not in out:
                out.append(t)
    return out


def import_universe():
    import glue.core.subset, glue.core.roi, glue.core.link_helpers, glue.core.coordinates, glue.core.component_link, glue.core.roi_pretransforms  # noqa
    import glue.core.subset_group, glue.core.data_derived, glue.core.parse  # noqa
    import glue.viewers.image.pixel_selection_subset_state  # noqa
    try:
        import glue.plugins.coordinate_helpers.link_helpers  # noqa
        import glue.plugins.wcs_autolinking.wcs_autolinking  # noqa
    except Exception:
        pass


# ---------------------------------------------------------------- the round trip

def roundtrip(obj, include_data=True, via_app=False, workdir=None):
    """-> ('refused', msg) | ('load-error', msg) | ('ok', restored, text)"""
    from glue.core.state import GlueSerializer, GlueUnSerializer
    from bounded.c10_stats import time_limit, CaseTimeout
    if HANGS[0] >= 2:
        raise CaseTimeout("two earlier saves or loads did not return; the sweep stops")
    try:
        with time_limit(30):
            return _roundtrip(obj, include_data, via_app, workdir)
    except CaseTimeout:
        HANGS[0] += 1
        return ('load-error', "CaseTimeout: saving or loading did not return within 30 s")


HANGS = [0]


def _roundtrip(obj, include_data=True, via_app=False, workdir=None):
    from glue.core.state import GlueSerializer, GlueUnSerializer
    with warnings.catch_warnings():
        warnings.simplefilter('ignore')
        if via_app:
            from glue.core.application_base import Application
            app = Application(obj)
            path = os.path.join(workdir, 'session.glu')
            try:
                app.save_session(path, include_data=include_data)
            except Exception as e:
                return ('refused', "%s: %s" % (type(e).__name__, e))
            try:
                app2 = Application.restore_session(path)
            except Exception as e:
                return ('load-error', "%s: %s" % (type(e).__name__, e))
            return ('ok', app2.data_collection, open(path).read())
        try:
            text = GlueSerializer(obj, include_data=include_data).dumps()
        except Exception as e:
            return ('refused', "%s: %s" % (type(e).__name__, e))
        try:
            cwd = os.getcwd()
            if workdir:
                os.chdir(workdir)
            try:
                dc2 = GlueUnSerializer.loads(text).object('__main__')
            finally:
                os.chdir(cwd)
        except Exception as e:
            return ('load-error', "%s: %s" % (type(e).__name__, e))
        return ('ok', dc2, text)


def check_collection(dc, include_data=True, via_app=False, workdir=None, aspects=ASPECTS, extra=None):
    """-> None | 'refused' | (kind, detail).  `extra(dc)` adds harness-specific observations to the snapshot."""
    def snap(c):
        s = snapshot(c)
        if extra is not None:
            s['extra'] = extra(c)
        return s
    asp = set(aspects) | ({'extra'} if extra is not None else set())
    with warnings.catch_warnings():
        warnings.simplefilter('ignore')
        before = snap(dc)
    r = roundtrip(dc, include_data, via_app, workdir)
    if r[0] == 'refused':
        return 'refused'
    if r[0] == 'load-error':
        return ('load-error', "saved without complaint, loading raised %s" % r[1])
    dc2 = r[1]
    with warnings.catch_warnings():
        warnings.simplefilter('ignore')
        try:
            after = snap(dc2)
        except Exception as e:
            return ('restored-unusable', "observing the restored session raised %s: %s" % (type(e).__name__, e))
    dd = diff(before, after, asp)
    if dd:
        what = dd[0].split(':')[0]
        key = what.split('.')[-1] if '.' in what else what
        for k in ('subsets', 'groups', 'values', 'linked', 'key_joins', 'style', 'meta', 'components', 'coords', 'units', 'kinds', 'label', 'uuid', 'extra', 'n_links', 'n_subsets', 'n_groups'):
            if k in what:
                key = k
                break
        return ('differs:' + key, '; '.join(dd[:3]))
    # idempotence
    r2 = roundtrip(dc2, include_data, via_app, workdir)
    if r2[0] != 'ok':
        return ('second-save-' + r2[0], "the restored session cannot be saved and restored again: %s" % r2[1])
    with warnings.catch_warnings():
        warnings.simplefilter('ignore')
        third = snap(r2[1])
    dd = diff(after, third, asp)
    if dd:
        return ('not-idempotent', '; '.join(dd[:3]))
    return None


# ---------------------------------------------------------------- base datasets

def base_collection(rng=None):
    """a table, an image and a cube with every component kind; pixel-aligned image/cube pair; returns (dc, dict of handy cids)"""
    from glue.core import Data, DataCollection
    from glue.core.component import CategoricalComponent
    from glue.core.coordinates import AffineCoordinates, IdentityCoordinates
    n = 8
    t = Data(label='table', x=np.array([1.5, -2.0, 3.25, np.nan, 0.0, 7.5, 2.5, -1.0]), y=np.array([4, 5, 6, 7, 0, 1, 2, 3]),
             z=np.array([0.5, 1.5, 2.5, 3.5, 4.5, 5.5, 6.5, 7.5]))
    t.add_component(CategoricalComponent(np.array(['a', 'b', 'a', 'c', 'b', 'a', 'c', 'c'])), 'cat')
    t.add_component(np.array(['2020-01-0%d' % (i + 1) for i in range(n)], dtype='datetime64[D]'), 'when')
    t['der'] = t.id['x'] * 2 + t.id['y']
    t['dx'] = t.id['x'] * 3 - 1              # depends on x only: readable from any dataset that is linked to x
    t.get_component(t.id['z']).units = 'km'
    img = Data(label='image', v=np.arange(12, dtype=float).reshape((3, 4)) - 3.5, coords=AffineCoordinates(np.array([[2., 0.5, 1.], [0., 1.5, -2.], [0., 0., 1.]])))
    cube = Data(label='cube', w=(np.arange(24, dtype=float).reshape((2, 3, 4)) * 1.5 - 7), coords=IdentityCoordinates(n_dim=3))
    dc = DataCollection([t, img, cube])
    return dc, dict(t=t, img=img, cube=cube)


# ---------------------------------------------------------------- universe: selections

def roi_builders():
    from glue.core import roi as G
    b = {
        'RectangularROI': lambda: G.RectangularROI(-1.5, 3.0, 0.5, 5.5),
        'RectangularROI:rotated': lambda: G.RectangularROI(-1.5, 3.0, 0.5, 5.5, theta=0.7),
        'RectangularROI:undefined': lambda: G.RectangularROI(),
        'RangeROI': lambda: G.RangeROI('x', min=-1.0, max=2.6),
        'XRangeROI': lambda: G.XRangeROI(-1.0, 2.6),
        'YRangeROI': lambda: G.YRangeROI(0.5, 4.5),
        'CircularROI': lambda: G.CircularROI(1.0, 3.0, 2.6),
        'CircularROI:undefined': lambda: G.CircularROI(),
        'CircularAnnulusROI': lambda: G.CircularAnnulusROI(1.0, 3.0, 1.2, 3.4),
        'EllipticalROI': lambda: G.EllipticalROI(1.0, 3.0, 3.0, 1.6, theta=0.5),
        'PolygonalROI': lambda: G.PolygonalROI([-2.5, 4.0, 4.0, 0.5], [-0.5, 0.5, 6.5, 7.5]),
        'PolygonalROI:empty': lambda: G.PolygonalROI(),
        'Path': lambda: G.Path([-2.5, 4.0, 4.0], [-0.5, 0.5, 6.5]),
        'PointROI': lambda: G.PointROI(1.5, 4.0),
        'CategoricalROI': lambda: G.CategoricalROI(['a', 'c']),
        'Projected3dROI': lambda: G.Projected3dROI(G.RectangularROI(-0.5, 2.5, -0.5, 1.5), np.array([[1., 0, 0, 0], [0, 1, 0, 0], [0, 0, 1, 0], [0, 0, 0, 1]])),
        'Projected3dROI:polygon': lambda: G.Projected3dROI(G.PolygonalROI([-0.5, 2.5, 2.5], [-0.5, -0.5, 1.5]), np.array([[0.5, 0.5, 0, 0], [0, 1, 0.25, 0], [0, 0, 1, 0], [0, 0, 0, 2.]])),
    }
    return b


def roi_probe(roi):
    """what a region does on a probe grid (None where it cannot say)"""
    gx, gy = np.meshgrid(np.linspace(-3, 8, 23), np.linspace(-3, 8, 23))
    try:
        with np.errstate(all='ignore'):
            return tuple(np.asarray(roi.contains(gx, gy), dtype=bool).ravel().tolist())
    except Exception as e:
        return 'error:%s' % type(e).__name__


def selection_builders(h):
    """class name -> list of (variant, builder); builders return a subset state over the base collection `h`"""
    from glue.core import subset as S
    from glue.core import roi as G
    from glue.core import roi_pretransforms as RP
    from glue.viewers.image.pixel_selection_subset_state import PixelSubsetState
    t, img, cube = h['t'], h['img'], h['cube']
    x, y, z, cat, when = t.id['x'], t.id['y'], t.id['z'], t.id['cat'], t.id['when']
    rb = roi_builders()
    m = np.zeros(img.shape, bool)
    m[1, 1:3] = True
    out = {
        'SubsetState': [('empty', lambda: S.SubsetState())],
        'ParsedSubsetState': [('expression', lambda: __import__('glue.core.parse', fromlist=['x']).ParsedSubsetState(__import__('glue.core.parse', fromlist=['x']).ParsedCommand('({x} > 1.2) & ({y} < 6)', {'x': x, 'y': y})))],
        'RoiSubsetState': [(k, (lambda k=k: S.RoiSubsetState(x, y, rb[k]()))) for k in rb if not k.startswith(('CategoricalROI', 'Projected3dROI'))] +
                          [('pixel-attributes', lambda: S.RoiSubsetState(img.pixel_component_ids[1], img.pixel_component_ids[0], G.RectangularROI(0.5, 2.5, -0.5, 1.5))),
                           ('pretransform:radian', lambda: S.RoiSubsetState(x, y, G.RectangularROI(-0.1, 0.1, 0.0, 0.12), pretransform=RP.RadianTransform(coords=['x', 'y'], next_transform=None))),
                           ('pretransform:full-sphere', lambda: S.RoiSubsetState(x, y, G.RectangularROI(-4, 4, 0.5, 5.5), pretransform=RP.FullSphereLongitudeTransform()))],
        'RoiSubsetStateNd': [('2-attributes', lambda: S.RoiSubsetStateNd([x, y], G.RectangularROI(-1.5, 3.0, 0.5, 5.5))),
                             ('2-attributes-circle', lambda: S.RoiSubsetStateNd([x, z], G.CircularROI(1.0, 3.0, 2.6)))],
        'RoiSubsetState3d': [('projected', lambda: S.RoiSubsetState3d(*cube.pixel_component_ids[::-1], rb['Projected3dROI']())),
                             ('projected-polygon', lambda: S.RoiSubsetState3d(*cube.pixel_component_ids[::-1], rb['Projected3dROI:polygon']()))],
        'CategoricalROISubsetState': [('categories', lambda: S.CategoricalROISubsetState(cat, G.CategoricalROI(['a', 'c']))),
                                      ('from-range', lambda: S.CategoricalROISubsetState.from_range(t.get_component(cat).categories, cat, 0.5, 2.5))],
        'RangeSubsetState': [('float', lambda: S.RangeSubsetState(-1.0, 2.5, x)), ('int', lambda: S.RangeSubsetState(2, 5, y)),
                             ('datetime', lambda: S.RangeSubsetState(np.datetime64('2020-01-03'), np.datetime64('2020-01-06'), when))],
        'MultiRangeSubsetState': [('two-ranges', lambda: S.MultiRangeSubsetState([(-2.5, -0.5), (2.0, 4.0)], x))],
        'CategoricalROISubsetState2D': [('pairs', lambda: S.CategoricalROISubsetState2D({'a': ['c', 'a'], 'c': ['c']}, cat, cat))],
        'CategoricalMultiRangeSubsetState': [('ranges', lambda: S.CategoricalMultiRangeSubsetState({'a': [(0, 2.0)], 'c': [(3.0, 8.0), (-3, -0.5)]}, cat, x))],
        'CompositeSubsetState': [],       # abstract base (op is None)
        'OrState': [('or', lambda: (x > 2) | (y < 2))],
        'AndState': [('and', lambda: (x > 0) & (y < 6))],
        'XorState': [('xor', lambda: (x > 0) ^ (y < 4))],
        'InvertState': [('invert', lambda: ~(x > 0))],
        'MultiOrState': [('three', lambda: S.MultiOrState([x > 3, y < 1, S.RangeSubsetState(2.0, 3.0, z)]))],
        'MaskSubsetState': [('image-mask', lambda: S.MaskSubsetState(m, img.pixel_component_ids))],
        'FloodFillSubsetState': [('image', lambda: S.FloodFillSubsetState(img, img.id['v'], (1, 1), 1.4))],
        'SliceSubsetState': [('image', lambda: S.SliceSubsetState(img, [slice(1, 3), slice(0, 2)])), ('cube-stepped', lambda: S.SliceSubsetState(cube, [slice(None), slice(None, None, 2), slice(1, None)])),
                             ('short', lambda: S.SliceSubsetState(cube, [slice(0, 1)])),
                             # the first dataset of the collection is still being restored when the selections of its subsets are read back
                             ('first-dataset', lambda: S.SliceSubsetState(h['t'], [slice(1, 5)]))],
        'PixelSubsetState': [('cube-pixel', lambda: PixelSubsetState(cube, [slice(None), slice(1, 2), slice(2, 3)]))],
        'CategorySubsetState': [('codes', lambda: S.CategorySubsetState(cat, [0, 2]))],
        'ElementSubsetState': [('indices', lambda: S.ElementSubsetState([0, 3, 5], data=t)), ('indices-no-data', lambda: S.ElementSubsetState([1, 2]))],
        'InequalitySubsetState': [('cid-vs-number', lambda: x >= 1.5), ('number-vs-cid', lambda: 3 > y), ('cid-vs-cid', lambda: x < z),
                                  ('derived', lambda: t.id['der'] > 5), ('image-world', lambda: img.world_component_ids[1] > 0.5)],
    }
    return out


def selection_extra(dc):
    """regions and pre-transforms held by the selections of the first subset of each group, probed on a grid"""
    out = []
    for g in dc.subset_groups:
        st = g.subset_state
        out.append((g.label, type(st).__name__, _state_probe(st)))
    return out


def _state_probe(st):
    from glue.core.subset import CompositeSubsetState
    parts = [type(st).__name__]
    roi = getattr(st, 'roi', None)
    if roi is not None:
        parts.append((type(roi).__name__, roi_probe(roi) if not type(roi).__name__.startswith(('Categorical', 'Projected3d')) else None))
    pre = getattr(st, 'pretransform', None)
    if pre is not None:
        parts.append(('pretransform', type(pre).__name__))
    if isinstance(st, CompositeSubsetState):
        parts.append(_state_probe(st.state1))
        if st.state2 is not None:
            parts.append(_state_probe(st.state2))
    for s in getattr(st, 'states', []) or []:
        parts.append(_state_probe(s))
    return tuple(parts)


def run_selections(tier, seed, R, covered=None):
    covered = set() if covered is None else covered
    from glue.core.subset import SubsetState
    from glue.core.roi import Roi
    rng = random.Random(seed)
    classes = [SubsetState] + all_subclasses(SubsetState)
    dc0, h0 = base_collection()
    builders = selection_builders(h0)
    failed_leaves = set()
    for cls in classes:
        name = cls.__name__
        if name not in builders:
            R.fail("selection|%s|no-builder" % name, "selection class %s.%s has no builder in the harness: its round trip is not explored" % (cls.__module__, name), None)
            continue
        for variant, _ in builders[name]:
            for include_data in (True,):
                dc, h = base_collection()
                b = dict(selection_builders(h)[name])[variant]
                try:
                    state = b()
                except Exception as e:
                    R.fail("selection|%s|%s|builder-error" % (name, variant), "building %s (%s) raised %s: %s" % (name, variant, type(e).__name__, e), None)
                    continue
                g = dc.new_subset_group('sel', state)
                g.style.color = '#ab12cd'
                r = check_collection(dc, include_data, extra=selection_extra)
                covered.add(name)
                for part in variant.split(':')[:1]:
                    covered.add(part)          # RoiSubsetState variants are named after the region class they hold
                if r is not None and r != 'refused':
                    failed_leaves.add(name + ':' + variant)
                R.count((name, variant), 'selection-class-roundtrips')
                if r is not None and r != 'refused':
                    R.fail("selection|%s|%s|%s" % (name, variant.split(':')[0] if name == 'RoiSubsetState' else variant, r[0]),
                           "collection with a subset group holding %s (%s): %s" % (name, variant, r[1]),
                           "from bounded.c02_session import replay_selection\nsys.exit(replay_selection(%r, %r))\n" % (name, variant))
    # every Roi class must have been placed in some selection
    rb = roi_builders()
    for cls in all_subclasses(Roi):
        if inspect.isabstract(cls) or cls.__name__ in ('VertexROIBase',):
            continue
        if not any(k.split(':')[0] == cls.__name__ for k in rb) and cls.__module__.startswith('glue.core'):
            R.fail("roi|%s|no-builder" % cls.__name__, "region class %s has no builder in the harness" % cls.__name__, None)
    # every leaf kind nested once in every kind of combination (deterministic; the random trees below mix them)
    for name, variants in builders.items():
        if name == 'CompositeSubsetState':
            continue
        for variant, _ in variants:
            for wname in ('not', 'and', 'multi-or', 'not-not'):
                dc, h = base_collection()
                try:
                    leaf_state = dict(selection_builders(h)[name])[variant]()
                    from glue.core.subset import MultiOrState
                    other = companion(dc, h, leaf_state)
                    state = {'not': lambda: ~leaf_state, 'and': lambda: leaf_state & other, 'multi-or': lambda: MultiOrState([other, leaf_state]),
                             'not-not': lambda: ~(~leaf_state | other)}[wname]()
                except Exception:
                    continue
                dc.new_subset_group('nested', state)
                r = check_collection(dc, True, extra=selection_extra)
                R.count(('nested', name, variant, wname), 'selection-nested')
                if r is not None and r != 'refused':
                    R.fail("selection-nested|%s|%s|%s|%s" % (name, variant.split(':')[0] if name == 'RoiSubsetState' else variant, wname, r[0]),
                           "subset group holding %s (%s) nested as %s: %s" % (name, variant, wname, r[1]),
                           "from bounded.c02_session import replay_nested\nsys.exit(replay_nested(%r, %r, %r))\n" % (name, variant, wname))
    # compositions: random trees over the leaf builders
    n_comp = 60 if tier == 'quick' else 400
    leaves = [(n, v) for n, vs in builders.items() for v, _ in vs if n not in ('CompositeSubsetState',)]
    for i in range(n_comp):
        dc, h = base_collection()
        bl = selection_builders(h)
        def leaf():
            n, v = rng.choice(leaves)
            return (n + ':' + v, dict(bl[n])[v]())
        def tree(depth):
            from glue.core.subset import MultiOrState
            if depth == 0 or rng.random() < 0.25:
                return leaf()
            op = rng.choice(('and', 'or', 'xor', 'not', 'multi-or'))
            if op == 'not':
                a = tree(depth - 1)
                return ('~(%s)' % a[0], ~a[1])
            if op == 'multi-or':
                parts = [tree(depth - 1) for _ in range(rng.randrange(1, 4))]
                return ('multi-or(%s)' % ', '.join(p[0] for p in parts), MultiOrState([p[1] for p in parts]))
            a, b = tree(depth - 1), tree(depth - 1)
            return ('(%s %s %s)' % (a[0], op, b[0]), {'and': a[1] & b[1], 'or': a[1] | b[1], 'xor': a[1] ^ b[1]}[op])
        try:
            desc, state = tree(3)
        except Exception as e:
            continue
        dc.new_subset_group('tree', state)
        dc.new_subset_group('other', h['t'].id['x'] > 0)
        r = check_collection(dc, True, extra=selection_extra)
        R.count(('tree', desc), 'selection-compositions')
        if r is not None and r != 'refused':
            culprits = sorted(l for l in failed_leaves if l in desc)
            sig = "selection-composition|contains:%s|%s" % (culprits[0], r[0]) if culprits else "selection-composition|%s" % r[0]
            R.fail(sig, "subset group holding %s: %s" % (desc, r[1]), None)


def companion(dc, h, leaf_state):
    """a second selection that can be evaluated wherever the leaf can (first pixel axis >= 1 of the first dataset the leaf applies to)"""
    for d in dc:
        try:
            leaf_state.to_mask(d)
        except Exception:
            continue
        return d.pixel_component_ids[0] >= 1
    return h['t'].id['x'] > 0


def replay_nested(name, variant, wname):
    from glue.core.subset import MultiOrState
    dc, h = base_collection()
    leaf_state = dict(selection_builders(h)[name])[variant]()
    other = companion(dc, h, leaf_state)
    state = {'not': lambda: ~leaf_state, 'and': lambda: leaf_state & other, 'multi-or': lambda: MultiOrState([other, leaf_state]),
             'not-not': lambda: ~(~leaf_state | other)}[wname]()
    dc.new_subset_group('nested', state)
    r = check_collection(dc, True, extra=selection_extra)
    print(r)
    return 1 if r is not None and r != 'refused' else 0


def replay_selection(name, variant):
    dc, h = base_collection()
    state = dict(selection_builders(h)[name])[variant]()
    dc.new_subset_group('sel', state)
    r = check_collection(dc, True, extra=selection_extra)
    print(r)
    return 1 if r is not None and r != 'refused' else 0


# ---------------------------------------------------------------- universe: links, joins, coordinates

def link_builders(h):
    from glue.core import link_helpers as LH
    from glue.core.component_link import ComponentLink, BinaryComponentLink
    from glue.core.link_helpers import identity, lengths_to_volume
    t, img, cube = h['t'], h['img'], h['cube']
    from glue.core import Data
    o = Data(label='other', a=np.arange(8) * 1.0, b=np.arange(8) * 2.0 + 1, c=np.arange(8) % 3 * 1.0, lon=np.linspace(10, 80, 8), lat=np.linspace(-40, 40, 8))
    t2 = Data(label='sky', l=np.linspace(20, 90, 8), bb=np.linspace(-30, 50, 8), dist=np.linspace(1, 9, 8))
    out = {'__extra_data__': [o, t2]}
    out['ComponentLink'] = [('identity', lambda: ComponentLink([t.id['x']], o.id['a'])), ('function', lambda: ComponentLink([t.id['x'], t.id['z']], o.id['b'], using=lengths_to_volume if False else _volume2)),
                            ('inverse-pair', lambda: [ComponentLink([t.id['z']], o.id['a'], using=_double, inverse=_half), ComponentLink([o.id['a']], t.id['z'], using=_half, inverse=_double)])]
    out['BinaryComponentLink'] = [('sum', lambda: None)]            # built through arithmetic on identifiers below (derived components)
    out['CoordinateComponentLink'] = [('automatic', lambda: None)]   # created by Data for world coordinates: covered by the base collection
    out['LinkSame'] = [('same', lambda: LH.LinkSame(t.id['x'], o.id['a']))]
    out['LinkTwoWay'] = [('two-way', lambda: LH.LinkTwoWay(t.id['z'], o.id['b'], _double, _half))]
    o.get_component(o.id['a']).units = 'm'
    out['LinkSameWithUnits'] = [('units', lambda: LH.LinkSameWithUnits(t.id['z'], o.id['a']))]
    out['MultiLink'] = [('2-to-1', lambda: LH.MultiLink([t.id['x'], t.id['z']], [o.id['b']], forwards=_volume2, labels2=['b'])),
                        ('2-to-2', lambda: LH.MultiLink([t.id['x'], t.id['z']], [o.id['a'], o.id['b']], forwards=_swap2, backwards=_swap2))]
    img_b = Data(label='image-aligned', q=np.arange(12, dtype=float).reshape((3, 4)) * 3)
    out['__extra_data__'].append(img_b)
    out['LinkAligned'] = [('two-images', lambda: LH.LinkAligned(img, img_b))]
    out['JoinLink'] = [('join', lambda: LH.JoinLink(cids1=[t.id['y']], cids2=[o.id['c']], data1=t, data2=o))]
    out['LinkCollection'] = [('plain', lambda: LH.LinkCollection([ComponentLink([t.id['x']], o.id['a'])]))]

    def parsed_link():
        from glue.core.parse import ParsedCommand, ParsedComponentLink
        from glue.core.component_id import ComponentID
        t.add_component_link(ParsedComponentLink(ComponentID('parsed'), ParsedCommand('{x} * 2 + {z}', {'x': t.id['x'], 'z': t.id['z']})))
        return '__already-added__'
    out['ParsedComponentLink'] = [('derived-attribute', parsed_link)]
    out['BaseMultiLink'] = []
    try:
        from glue.plugins.wcs_autolinking import wcs_autolinking as WA
        i2 = Data(label='image-b', q=np.arange(12, dtype=float).reshape((3, 4)) * 2)
        out['__extra_data__'].append(i2)
        out['OffsetLink'] = [('offsets', lambda: WA.OffsetLink(img, i2, img.pixel_component_ids, i2.pixel_component_ids, offsets=[1.0, -2.0]))]
        out['AffineLink'] = [('matrix', lambda: WA.AffineLink(img, i2, img.pixel_component_ids, i2.pixel_component_ids, matrix=np.array([[2., 0., 1.], [0., 0.5, -1.], [0., 0., 1.]])))]
        out['NoCompatibleWCS' if False else 'IncompatibleWCS'] = []
        try:
            from astropy.wcs import WCS
            wa, wb = WCS(naxis=2), WCS(naxis=2)
            for w, ref in ((wa, 1.0), (wb, 3.0)):
                w.wcs.ctype = ['RA---TAN', 'DEC--TAN']
                w.wcs.crval = [10.0, 20.0]
                w.wcs.crpix = [ref, ref + 1]
                w.wcs.cdelt = [-0.01, 0.01]
            w1 = Data(label='wcs-a', f=np.arange(12, dtype=float).reshape((3, 4)), coords=wa)
            w2 = Data(label='wcs-b', g=np.arange(20, dtype=float).reshape((4, 5)), coords=wb)
            out['__extra_data__'] += [w1, w2]
            out['WCSLink'] = [('celestial', lambda: WA.WCSLink(w1, w2))]
        except ImportError:
            pass
    except Exception:
        pass
    try:
        from glue.plugins.coordinate_helpers import link_helpers as CH
        for nm in ('Galactic_to_FK5', 'FK4_to_FK5', 'ICRS_to_FK5', 'Galactic_to_FK4', 'ICRS_to_FK4', 'ICRS_to_Galactic'):
            out[nm] = [('celestial', (lambda nm=nm: getattr(CH, nm)([o.id['lon'], o.id['lat']], [t2.id['l'], t2.id['bb']])))]
        out['GalactocentricToGalactic'] = [('celestial-3d', lambda: CH.GalactocentricToGalactic([o.id['a'], o.id['b'], o.id['c']], [t2.id['l'], t2.id['bb'], t2.id['dist']]))]
        out['BaseCelestialMultiLink'] = []
    except Exception:
        pass
    return out


def _double(x):
    return x * 2


def _half(x):
    return x / 2


def _volume2(a, b):
    return a * b


def _swap2(a, b):
    return b, a


def register_functions():
    """functions used by the link builders must be in the link-function registry to be saved by name"""
    from glue.config import link_function
    have = set(getattr(f, 'function', f).__name__ for f in link_function.members)
    for fn, nout in ((_double, 1), (_half, 1), (_volume2, 1), (_swap2, 2)):
        if fn.__name__ not in have:
            link_function(info="harness", output_labels=['o%d' % i for i in range(nout)])(fn)


def run_links(tier, seed, R, covered=None):
    covered = set() if covered is None else covered
    from glue.core.link_helpers import LinkCollection
    from glue.core.component_link import ComponentLink
    from glue.core import DataCollection
    register_functions()
    classes = [LinkCollection] + all_subclasses(LinkCollection) + [ComponentLink] + all_subclasses(ComponentLink)
    dc0, h0 = base_collection()
    builders = link_builders(h0)
    for cls in classes:
        name = cls.__name__
        if name not in builders:
            if name in ('IncompatibleWCS',) or not inspect.isclass(cls) or issubclass(cls, Exception):
                continue
            R.fail("link|%s|no-builder" % name, "link class %s.%s has no builder in the harness" % (cls.__module__, name), None)
            continue
        for variant, _ in builders[name]:
            dc, h = base_collection()
            lb = link_builders(h)
            for d in lb['__extra_data__']:
                dc.append(d)
            try:
                link = dict(lb[name])[variant]()
            except Exception as e:
                R.fail("link|%s|%s|builder-error" % (name, variant), "building %s (%s) raised %s: %s" % (name, variant, type(e).__name__, e), None)
                continue
            if link is None:
                continue
            for l in ([] if link == '__already-added__' else link if isinstance(link, list) else [link]):
                dc.add_link(l)
            # selections that need the link to be evaluated on the other side
            o = lb['__extra_data__'][0]
            dc.new_subset_group('through-link', h['t'].id['x'] > 1)
            dc.new_subset_group('through-link-back', o.id['a'] > 3)
            r = check_collection(dc, True)
            covered.add(name)
            R.count((name, variant), 'link-class-roundtrips')
            if r is not None and r != 'refused':
                R.fail("link|%s|%s|%s" % (name, variant, r[0]), "collection linked with %s (%s): %s" % (name, variant, r[1]),
                       "from bounded.c02_session import replay_link\nsys.exit(replay_link(%r, %r))\n" % (name, variant))
    # pixel-aligned datasets
    from glue.core.link_helpers import LinkSame
    from glue.core import Data
    dc, h = base_collection()
    img2 = Data(label='image2', q=np.arange(12, dtype=float).reshape((3, 4)) * 2)
    dc.append(img2)
    for a, b in zip(h['img'].pixel_component_ids, img2.pixel_component_ids):
        dc.add_link(LinkSame(a, b))
    dc.new_subset_group('on-image2', img2.id['q'] > 7)
    dc.new_subset_group('slice', __import__('glue.core.subset', fromlist=['x']).SliceSubsetState(h['img'], [slice(0, 2), slice(1, 3)]))
    r = check_collection(dc, True)
    R.count(('pixel-aligned',), 'link-class-roundtrips')
    if r is not None and r != 'refused':
        R.fail("link|pixel-aligned|%s" % r[0], "two images linked pixel to pixel: %s" % r[1], None)


def replay_link(name, variant):
    register_functions()
    dc, h = base_collection()
    lb = link_builders(h)
    for d in lb['__extra_data__']:
        dc.append(d)
    link = dict(lb[name])[variant]()
    for l in ([] if link == '__already-added__' else link if isinstance(link, list) else [link]):
        dc.add_link(l)
    o = lb['__extra_data__'][0]
    dc.new_subset_group('through-link', h['t'].id['x'] > 1)
    dc.new_subset_group('through-link-back', o.id['a'] > 3)
    r = check_collection(dc, True)
    print(r)
    return 1 if r is not None and r != 'refused' else 0


def run_joins(tier, seed, R):
    from glue.core import Data, DataCollection
    shapes = {
        'one-join': [('catalog', 'spectra', 'star', 'star')],
        'two-partners-reverse-label-order': [('catalog', 'spectra', 'star', 'star'), ('catalog', 'images', 'star', 'star')],
        'triangle': [('catalog', 'spectra', 'star', 'star'), ('catalog', 'images', 'star', 'star'), ('spectra', 'images', 'obs', 'obs')],
        'chain': [('catalog', 'spectra', 'star', 'star'), ('spectra', 'images', 'obs', 'obs')],
        'multi-key': [('catalog', 'spectra', ('star', 'band'), ('star', 'band'))],
    }
    for sname, joins in shapes.items():
        for order in (0, 1):
            cat = Data(label='catalog', star=np.array([1, 2, 3, 4]), band=np.array([0, 1, 0, 1]), mag=np.array([5., 6., 7., 8.]))
            spe = Data(label='spectra', star=np.array([4, 3, 3, 1, 9]), band=np.array([1, 0, 1, 0, 0]), obs=np.array([10, 11, 12, 13, 14]), flux=np.array([0.5, 2.0, 0.1, 3.0, 9.0]))
            ima = Data(label='images', star=np.array([2, 4, 4]), obs=np.array([12, 10, 13]), exptime=np.array([30., 60., 90.]))
            byname = {'catalog': cat, 'spectra': spe, 'images': ima}
            dc = DataCollection([cat, spe, ima] if order == 0 else [ima, spe, cat])
            for a, b, ka, kb in joins:
                byname[a].join_on_key(byname[b], ka, kb)
            dc.new_subset_group('bright', spe.id['flux'] > 1)
            dc.new_subset_group('long', ima.id['exptime'] > 45)
            dc.new_subset_group('faint', cat.id['mag'] > 6.5)
            r = check_collection(dc, True)
            R.count((sname, order), 'key-join-roundtrips')
            if r is not None and r != 'refused':
                R.fail("join|%s|%s" % (sname, r[0]), "datasets joined on key (%s, collection order %d): %s" % (sname, order, r[1]),
                       None)


def run_coordinates(tier, seed, R):
    from glue.core import Data, DataCollection
    from glue.core.coordinates import Coordinates, AffineCoordinates, IdentityCoordinates
    builders = {
        'IdentityCoordinates': [lambda nd: IdentityCoordinates(n_dim=nd)],
        'AffineCoordinates': [lambda nd: AffineCoordinates(_affine(nd, 'diagonal')), lambda nd: AffineCoordinates(_affine(nd, 'coupled'), units=['m'] * nd, labels=['ax%d' % i for i in range(nd)]),
                              lambda nd: AffineCoordinates(_affine(nd, 'permuted'))],
        'LegacyCoordinates': [],
    }
    for cls in all_subclasses(Coordinates):
        if not cls.__module__.startswith('glue.'):
            continue
        if cls.__name__ not in builders:
            R.fail("coords|%s|no-builder" % cls.__name__, "coordinates class %s.%s has no builder in the harness" % (cls.__module__, cls.__name__), None)
            continue
        for bi, b in enumerate(builders[cls.__name__]):
            for nd in (1, 2, 3):
                shape = (4, 3, 2)[:nd]
                d = Data(label='c', v=np.arange(int(np.prod(shape)), dtype=float).reshape(shape), coords=b(nd))
                dc = DataCollection([d])
                dc.new_subset_group('world', d.world_component_ids[-1] > 1.0)
                r = check_collection(dc, True)
                R.count((cls.__name__, bi, nd), 'coordinates-roundtrips')
                if r is not None and r != 'refused':
                    R.fail("coords|%s|%s" % (cls.__name__, r[0]), "%d-d dataset with %s (variant %d): %s" % (nd, cls.__name__, bi, r[1]), None)
    try:
        from astropy.wcs import WCS
    except Exception:
        return
    for nd in (1, 2, 3):
        w = WCS(naxis=nd)
        w.wcs.crpix = [1.5] * nd
        w.wcs.cdelt = [0.5 + i for i in range(nd)]
        w.wcs.crval = [10.0 * (i + 1) for i in range(nd)]
        w.wcs.ctype = ['RA---TAN', 'DEC--TAN', 'VELO-LSR'][:nd] if nd > 1 else ['VELO-LSR']
        shape = (4, 3, 2)[:nd]
        d = Data(label='w', v=np.arange(int(np.prod(shape)), dtype=float).reshape(shape), coords=w)
        dc = DataCollection([d])
        dc.new_subset_group('world', d.world_component_ids[0] > 10.5)
        r = check_collection(dc, True)
        R.count(('WCS', nd), 'coordinates-roundtrips')
        if r is not None and r != 'refused':
            R.fail("coords|WCS|%s" % r[0], "%d-d dataset with an astropy WCS: %s" % (nd, r[1]), None)


def _affine(nd, kind):
    m = np.eye(nd + 1)
    for i in range(nd):
        m[i, i] = 1.5 + i
        m[i, nd] = -2.0 + i
    if kind == 'coupled' and nd > 1:
        m[0, 1] = 0.5
        m[nd - 1, 0] = -0.25
    if kind == 'permuted' and nd > 1:
        m[[0, nd - 1]] = m[[nd - 1, 0]]
    return m


# ---------------------------------------------------------------- components, styles, metadata, labels

def run_components(tier, seed, R):
    from glue.core import Data, DataCollection
    from glue.core.component import CategoricalComponent, Component, DateTimeComponent
    from glue.core.parse import ParsedCommand, ParsedComponentLink
    variants = {}

    def v(name):
        def deco(f):
            variants[name] = f
            return f
        return deco

    @v('numeric-kinds')
    def _():
        d = Data(label='k', i8=np.arange(5, dtype=np.int8), u16=np.arange(5, dtype=np.uint16), i64=np.arange(5) * 10 ** 12, f32=np.arange(5, dtype=np.float32) / 3, f64=np.array([np.nan, np.inf, -np.inf, 0.1, 1e300]),
                 b=np.array([True, False, True, True, False]))
        return DataCollection([d])

    @v('categorical-explicit-order')
    def _():
        d = Data(label='c', n=np.arange(4))
        d.add_component(CategoricalComponent(np.array(['b', 'a', 'b', 'c']), categories=np.array(['c', 'b', 'a', 'unused'])), 'cat')
        dc = DataCollection([d])
        dc.new_subset_group('cats', d.id['cat'] == 'b')
        return dc

    @v('categorical-numbers-as-text')
    def _():
        d = Data(label='c', n=np.arange(4))
        d.add_component(CategoricalComponent(np.array(['10', '9', '10', '1'])), 'cat')
        return DataCollection([d])

    @v('datetime-resolutions')
    def _():
        d = Data(label='t', n=np.arange(3))
        d.add_component(np.array(['2001-02-03T04:05:06.789', '1999-12-31T23:59:59.999', 'NaT'], dtype='datetime64[ms]'), 'ms')
        d.add_component(np.array(['2001-02-03', '1969-07-20', '2030-01-01'], dtype='datetime64[D]'), 'day')
        return DataCollection([d])

    @v('derived-arithmetic')
    def _():
        d = Data(label='d', x=np.array([1., 2., 3.]), y=np.array([4., 5., 6.]))
        d['s'] = d.id['x'] + d.id['y']
        d['p'] = (d.id['x'] * 3 - 1) / d.id['y']
        d['q'] = d.id['s'] ** 2
        d['n'] = 0 - d.id['x']
        dc = DataCollection([d])
        dc.new_subset_group('on-derived', d.id['p'] > 0.5)
        return dc

    @v('derived-parsed-expression')
    def _():
        d = Data(label='d', x=np.array([1., 2., 3.]), y=np.array([4., 5., 6.]))
        dc = DataCollection([d])
        pc = ParsedCommand('{x} * 2 + np.sqrt({y})', {'x': d.id['x'], 'y': d.id['y']})
        from glue.core.component_id import ComponentID
        cid = ComponentID('expr')
        d.add_component_link(ParsedComponentLink(cid, pc))
        return dc

    @v('units-and-renamed')
    def _():
        d = Data(label='u', x=np.array([1., 2., 3.]), y=np.array([4., 5., 6.]))
        d.get_component(d.id['x']).units = 'm/s'
        d.id['y'].label = 'renamed y'
        d.reorder_components([d.id['renamed y'], d.id['x']] + [c for c in d.components if c not in (d.id['x'], d.id['renamed y'])]) if False else None
        return DataCollection([d])

    @v('reordered-components')
    def _():
        d = Data(label='r', a=np.arange(3.), b=np.arange(3.) * 2, c=np.arange(3.) * 3)
        order = [d.id['c'], d.id['a'], d.id['b']]
        rest = [c for c in d.components if c not in order]
        d.reorder_components(rest[:1] + order + rest[1:]) if False else d.reorder_components(order + rest)
        return DataCollection([d])

    @v('removed-component')
    def _():
        d = Data(label='r', a=np.arange(3.), b=np.arange(3.) * 2, c=np.arange(3.) * 3)
        d.remove_component(d.id['b'])
        return DataCollection([d])

    @v('updated-values')
    def _():
        d = Data(label='r', a=np.arange(3.), b=np.arange(3.) * 2)
        d.update_components({d.id['a']: np.array([9., 8., 7.])})
        return DataCollection([d])

    @v('scalar-and-empty')
    def _():
        d0 = Data(label='empty', a=np.zeros((0,)))
        d1 = Data(label='one', a=np.array([3.5]))
        d2 = Data(label='thin', a=np.zeros((3, 0, 2)))
        return DataCollection([d0, d1, d2])

    @v('no-datasets')
    def _():
        return DataCollection([])

    @v('duplicate-labels')
    def _():
        a = Data(label='same', x=np.arange(3.))
        b = Data(label='same', x=np.arange(3.) + 10, y=np.arange(3.))
        c = Data(label='same_0', x=np.arange(2.))
        dc = DataCollection([a, b, c])
        dc.new_subset_group('same', a.id['x'] > 0)
        dc.new_subset_group('same', b.id['y'] > 1)
        dc.new_subset_group('x', c.id['x'] > 0)
        return dc

    @v('awkward-labels')
    def _():
        a = Data(label='__main__', x=np.arange(3.))
        b = Data(label='st__x', x=np.arange(3.) + 10)
        c = Data(label='', x=np.arange(2.))
        d = Data(label='DataCollection', x=np.arange(2.))
        e = Data(label='café "quoted" \\ back / slash\nnewline', x=np.arange(2.))
        e.add_component(np.arange(2.) + 5, 'x y[z] {w}')
        f = Data(label='st_', x=np.arange(2.))
        g = Data(label='st_', x=np.arange(2.) + 1)
        dc = DataCollection([a, b, c, d, e, f, g])
        dc.new_subset_group('st__group', b.id['x'] > 10)
        dc.new_subset_group('Subset 1', a.id['x'] > 0)
        dc.new_subset_group('', e.id['x y[z] {w}'] > 5)
        return dc

    @v('reordered-coordinate-components')
    def _():
        from glue.core.coordinates import AffineCoordinates
        m = np.array([[2., 0.5, 0., 1.], [0., 3., 0., -1.], [0.25, 0., 1.5, 4.], [0., 0., 0., 1.]])
        d = Data(label='cube', v=np.arange(24.).reshape(2, 3, 4), coords=AffineCoordinates(m))
        d['w'] = d.id['v'] * 2
        # coordinate attributes listed against the axis order, and mixed with the others
        order = list(d.components)
        px, wd = list(d.pixel_component_ids), list(d.world_component_ids)
        rest = [c for c in order if c not in px and c not in wd]
        d.reorder_components([wd[2], px[1], rest[0], px[2], wd[0], px[0], wd[1]] + rest[1:])
        e = Data(label='image', u=np.arange(6.).reshape(2, 3))
        e.reorder_components(list(e.components)[::-1])
        dc = DataCollection([d, e])
        dc.new_subset_group('world', d.world_component_ids[2] > 5)
        dc.new_subset_group('pixel', e.pixel_component_ids[1] > 0)
        return dc

    @v('same-component-label-twice')
    def _():
        a = Data(label='a', x=np.arange(3.))
        a.add_component(np.arange(3.) + 100, 'x')
        dc = DataCollection([a])
        return dc

    @v('styles')
    def _():
        a = Data(label='a', x=np.arange(3.))
        a.style.color = '#010203'
        a.style.alpha = 0
        a.style.marker = 's'
        a.style.markersize = 11
        a.style.linewidth = 0.5
        a.style.linestyle = 'dashed'
        dc = DataCollection([a])
        g = dc.new_subset_group('hidden', a.id['x'] > 0)
        g.style.alpha = 0.0
        g.style.color = '0.35'
        g.style.markersize = 1
        g2 = dc.new_subset_group('named-colour', a.id['x'] > 1)
        g2.style.color = 'red'
        g2.style.alpha = 1
        g2.subsets[0].style.linewidth = 7
        try:
            from matplotlib import cm
            a.style.preferred_cmap = cm.viridis
        except Exception:
            pass
        return dc

    @v('metadata')
    def _():
        a = Data(label='a', x=np.arange(3.))
        a.meta['text'] = 'st__looks-like-a-string-tag'
        a.meta['int'] = 3
        a.meta['float'] = 2.5
        a.meta['none'] = None
        a.meta['bool'] = False
        a.meta['list'] = [1, 2, [3, 'four']]
        a.meta['tuple'] = (1, 2)
        a.meta['np-float'] = np.float64(1.25)
        a.meta['np-int'] = np.int32(7)
        a.meta['dict'] = {'k': 1, 'nested': {'z': [1, 2]}}
        a.meta[5] = 'integer key'
        return DataCollection([a])

    @v('metadata-with-entries-that-have-no-saver')
    def _():
        class NoSaver(object):
            pass
        out = []
        for pos in (0, 2, 4):
            a = Data(label='meta-%d' % pos, x=np.arange(3.))
            items = [('telescope', 'x'), ('nscan', 3), ('gain', 2.5), ('flags', [1, 2])]
            items.insert(pos, ('handle', NoSaver()))
            for k, val in items:
                a.meta[k] = val
            out.append(a)
        return DataCollection(out)

    @v('subset-group-without-data-then-data')
    def _():
        dc = DataCollection([])
        g = dc.new_subset_group('early', None)
        a = Data(label='late', x=np.arange(4.))
        dc.append(a)
        g.subset_state = a.id['x'] > 1
        return dc

    @v('many-groups-and-empty-group')
    def _():
        a = Data(label='a', x=np.arange(4.))
        dc = DataCollection([a])
        for i in range(5):
            dc.new_subset_group('g%d' % i, a.id['x'] > i)
        dc.new_subset_group('nothing', None)
        return dc

    for name, build in variants.items():
        for via_app in (False, True):
            wd = tempfile.mkdtemp(prefix='c02_')
            try:
                try:
                    dc = build()
                except Exception as e:
                    R.fail("components|%s|builder-error" % name, "building the %s collection raised %s: %s" % (name, type(e).__name__, e), None)
                    break
                r = check_collection(dc, True, via_app=via_app, workdir=wd)
            finally:
                shutil.rmtree(wd, ignore_errors=True)
            R.count((name, via_app), 'component-style-meta-label-roundtrips')
            if r is not None and r != 'refused':
                R.fail("components|%s|%s" % (name, r[0]), "collection '%s' saved %s: %s" % (name, 'through Application.save_session' if via_app else 'with GlueSerializer', r[1]),
                       "from bounded.c02_session import replay_components\nsys.exit(replay_components(%r, %r))\n" % (name, via_app))
    return variants


def replay_components(name, via_app):
    class Rr:
        failures = []

        def count(self, *a, **k):
            pass

        def fail(self, sig, detail, code):
            if ('|%s|' % name) in sig:
                print(sig, detail)
                self.failures.append(sig)
    r = Rr()
    run_components('quick', 0, r)
    return 1 if r.failures else 0


# ---------------------------------------------------------------- include_data off: datasets read from files

def run_files(tier, seed, R):
    from glue.core import DataCollection
    from glue.core.data_factories import load_data
    wd = tempfile.mkdtemp(prefix='c02_files_')
    try:
        p1 = os.path.join(wd, 'table.csv')
        with open(p1, 'w') as f:
            f.write("x,y,name\n1.5,4,a\n-2.0,5,b\n3.25,6,a\n,7,c\n")
        p2 = os.path.join(wd, 'second.csv')
        with open(p2, 'w') as f:
            f.write("u,v\n1,10\n2,20\n3,30\n")

        def fresh():
            with warnings.catch_warnings():
                warnings.simplefilter('ignore')
                a = load_data(p1)
                b = load_data(p2)
            return a, b

        variants = {}

        def v(name):
            def deco(f):
                variants[name] = f
                return f
            return deco

        @v('plain')
        def _(a, b):
            dc = DataCollection([a, b])
            dc.new_subset_group('s', a.id['x'] > 0)
            return dc

        @v('label-changed')
        def _(a, b):
            a.label = 'renamed table'
            return DataCollection([a, b])

        @v('derived-added')
        def _(a, b):
            a['twice'] = a.id['x'] * 2
            dc = DataCollection([a, b])
            dc.new_subset_group('s', a.id['twice'] > 0)
            return dc

        @v('component-added')
        def _(a, b):
            a.add_component(np.array([9., 8., 7., 6.]), 'extra')
            return DataCollection([a, b])

        @v('component-renamed')
        def _(a, b):
            a.id['y'].label = 'why'
            return DataCollection([a, b])

        @v('component-removed')
        def _(a, b):
            a.remove_component(a.id['y'])
            return DataCollection([a, b])

        @v('components-reordered')
        def _(a, b):
            order = [a.id['name'], a.id['y'], a.id['x']]
            a.reorder_components(order + [c for c in a.components if c not in order])
            return DataCollection([a, b])

        @v('values-updated')
        def _(a, b):
            a.update_components({a.id['y']: np.array([40, 50, 60, 70])})
            return DataCollection([a, b])

        @v('linked-and-joined')
        def _(a, b):
            from glue.core.link_helpers import LinkSame
            dc = DataCollection([a, b])
            dc.add_link(LinkSame(a.id['y'], b.id['v']))
            b.join_on_key(a, 'u', 'y')
            dc.new_subset_group('s', b.id['v'] > 15)
            return dc

        @v('style-units-meta')
        def _(a, b):
            a.style.alpha = 0
            a.style.color = '#112233'
            a.get_component(a.id['x']).units = 'deg'
            a.meta['note'] = 'kept'
            return DataCollection([a, b])

        for name, build in variants.items():
            for include_data in (False, True):
                for via_app in (False, True):
                    a, b = fresh()
                    try:
                        dc = build(a, b)
                    except Exception as e:
                        R.fail("files|%s|builder-error" % name, "building file-based variant %s raised %s: %s" % (name, type(e).__name__, e), None)
                        continue
                    r = check_collection(dc, include_data, via_app=via_app, workdir=wd)
                    R.count((name, include_data, via_app), 'file-backed-roundtrips')
                    if r is not None and r != 'refused':
                        R.fail("files|%s|include_data=%s|%s" % (name, include_data, r[0]),
                               "datasets read from csv files, then '%s'; saved with include_data=%s %s: %s" % (name, include_data, 'through Application.save_session' if via_app else 'with GlueSerializer', r[1]), None)
    finally:
        shutil.rmtree(wd, ignore_errors=True)


# ---------------------------------------------------------------- saver coverage (exhaustive over the class universe)

def run_labels(tier, seed, R):
    """labels are read back as they were written: plain (ungrouped) subsets of different datasets carrying the same label, datasets, attributes
    and subset groups with equal labels, also when the same session text is loaded twice in one process"""
    from glue.core import Data, DataCollection
    from glue.core.state import GlueSerializer, GlueUnSerializer

    def build(n_sets, with_group):
        ds = [Data(x=np.arange(5.) + i, label='same-name' if i < 2 else 'other') for i in range(n_sets)]
        # plain subsets inside a collection are converted to subset groups on load (by design, with a warning): they are saved here as
        # a plain list of datasets; groups in a collection
        dc = DataCollection(ds) if with_group else ds
        for i, d in enumerate(ds):
            if with_group:
                break
            d.new_subset(subset=d.id['x'] > i + 1, label='hot')
            d.new_subset(subset=d.id['x'] < i + 1, label='hot')
            d.new_subset(subset=d.id['x'] > 2, label='cold')
        if with_group:
            dc.new_subset_group('hot', ds[0].id['x'] > 0)
            dc.new_subset_group('hot', ds[0].id['x'] > 3)
        return dc

    def labels(dc):
        return [(d.label, [c.label for c in d.main_components], [s.label for s in d.subsets]) for d in dc] + [[g.label for g in getattr(dc, 'subset_groups', [])]]
    for n_sets in (1, 2, 3):
        for with_group in (False, True):
            dc = build(n_sets, with_group)
            want = labels(dc)
            R.count(('labels', n_sets, with_group), 'labels')
            try:
                text = GlueSerializer(dc).dumps()
            except Exception:
                continue            # a save that fails loudly is allowed by the property
            try:
                got = [labels(GlueUnSerializer.loads(text).object('__main__')) for _ in range(2)]
            except Exception as e:
                R.fail("labels|exception:%s" % type(e).__name__, "%d datasets with equally labelled subsets%s: %s: %s" % (n_sets, ' and groups' if with_group else '', type(e).__name__, e),
                       "from bounded.c02_session import replay_labels\nsys.exit(replay_labels())\n")
                continue
            for k, g in enumerate(got):
                if g != want:
                    R.fail("labels|%s" % ('first-load' if k == 0 else 'second-load'),
                           "%d datasets with equally labelled plain subsets%s, %s load of the saved text: labels %r, saved %r" % (n_sets, ' and groups' if with_group else '', 'first' if k == 0 else 'second', g, want),
                           "from bounded.c02_session import replay_labels\nsys.exit(replay_labels())\n")
                    break


def replay_labels():
    class _R:
        bad = 0

        def count(self, *a):
            pass

        def fail(self, sig, detail, code):
            print(sig, detail)
            self.bad += 1
    r = _R()
    run_labels('quick', 0, r)
    return 1 if r.bad else 0


def run_saver_coverage(R, covered):
    """For every class of the universe: resolve the saver as the real MRO dispatch does; a class that has its own constructor but
    inherits its saver must have a behavioural round-trip case (names in `covered`)."""
    from glue.core.state import GlueSerializer
    from glue.core.subset import SubsetState
    from glue.core.roi import Roi
    from glue.core.link_helpers import LinkCollection
    from glue.core.component_link import ComponentLink
    from glue.core.coordinates import Coordinates
    universe = []
    for base in (SubsetState, Roi, LinkCollection, ComponentLink, Coordinates):
        universe += [base] + [c for c in all_subclasses(base) if c.__module__.startswith('glue.')]
    for cls in universe:
        owner = None
        if hasattr(cls, '__gluestate__'):
            for t in cls.__mro__:
                if '__gluestate__' in t.__dict__:
                    owner = t
                    break
        else:
            for t in cls.__mro__:
                if t in GlueSerializer.dispatch:
                    owner = t
                    break
        R.count(('saver', cls.__name__), 'saver-resolution')
        if owner is None:
            continue        # saving raises GlueSerializeError: loud
        if owner is cls:
            continue
        # the class inherits its saver although it has a constructor of its own: whether that loses anything is decided by the behavioural
        # round trip of that class, so the harness must have a builder for it (a refusal to save counts: it is loud)
        if cls.__name__ in ABSTRACT_BASES:
            continue
        if '__init__' in cls.__dict__ and cls.__name__ not in covered:
            R.fail("saver-coverage|%s|inherits-saver-of-%s|no-behavioural-case" % (cls.__name__, owner.__name__),
                   "%s.%s has its own constructor but is saved by the saver of %s, and the harness has no round-trip case for it" %
                   (cls.__module__, cls.__name__, owner.__name__), None)


def run(tier, seed, R):
    from bounded.c10_stats import CaseTimeout
    try:
        _run(tier, seed, R)
    except CaseTimeout as e:
        R.fail("session|no-result", "saving or loading a session did not return: %s" % e, None)


def _run(tier, seed, R):
    import_universe()
    R.rule = ("save -> load -> compare (and save -> load again) of collections built from the public API: one collection per (selection class, variant) for every SubsetState subclass found by "
              "introspection with every Roi subclass and pre-transform placed in the selections that can hold it; random composition trees of depth <= 3 over those leaves; one collection per link "
              "helper / ComponentLink subclass (+ celestial helpers, pixel-aligned pair); key-join shapes (single, two partners, triangle, chain, multi-key) in both collection orders; every "
              "Coordinates subclass x 1-3 dims (+ astropy WCS); component kinds, derived components, reordered/removed/updated components, duplicate and awkward labels, styles incl. alpha 0, "
              "metadata kinds, each through GlueSerializer and through Application.save_session; datasets read from csv files with 10 kinds of later edits x include_data on/off; "
              "saver resolution for every class of the universe. Compared: bounded.session_oracle.snapshot (all aspects) + regions probed on a 23x23 grid. non-trivial = distinct case")
    R.exhaustive = False
    covered = set()
    run_selections(tier, seed, R, covered)
    run_links(tier, seed, R, covered)
    run_labels(tier, seed, R)
    run_saver_coverage(R, covered)
    run_joins(tier, seed, R)
    run_coordinates(tier, seed, R)
    run_components(tier, seed, R)
    run_files(tier, seed, R)
    R.samples.append({"case": "table/image/cube collection with a subset group holding RoiSubsetState(x, y, EllipticalROI(theta=0.5)): masks, region probe, styles equal after save/load and after a second save/load"})
    R.samples.append({"case": "catalog joined to spectra then images (reverse label order), selection on spectra.flux: catalog mask equal after the trip"})
