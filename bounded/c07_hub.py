"""C07 bounded stand-in: the real glue Hub against a reference hub written from the property statement,
on all well-nested schedules up to a length bound over a small alphabet (plus seeded random longer ones).
Labelled bounded; never counted as proved."""
import itertools
import random


def classes():
    from glue.core.message import Message

    class MA(Message):
        pass

    class MB(MA):
        pass

    class MC(MB):
        pass

    class MX(Message):
        pass
    return {'A': MA, 'B': MB, 'C': MC, 'X': MX}


class RefHub:
    """naive hub from the statement"""

    def __init__(self):
        self.subs = {}          # listener -> {cls: (handler, filter, prio)} insertion ordered
        self.depth = 0
        self.queue = []
        self.ign = {}

    def subscribe(self, l, cls, handler, filt, prio):
        self.subs.setdefault(l, {})[cls] = (handler, filt, prio)

    def unsubscribe(self, l, cls):
        if l in self.subs:
            self.subs[l].pop(cls, None)

    def unsubscribe_all(self, l):
        self.subs.pop(l, None)

    def broadcast(self, m):
        if self.ign.get(type(m), 0) > 0:
            return
        if self.depth > 0:
            self.queue.append(m)
            return
        targets = []
        for l, d in list(self.subs.items()):
            match = [c for c in d if isinstance(m, c)]
            if not match:
                continue
            best = match[0]
            for c in match[1:]:
                if len(c.__mro__) > len(best.__mro__):
                    best = c
            h, f, p = d[best]
            if f(m):
                targets.append((p, l, h))
        targets.sort(key=lambda t: -t[0])
        for p, l, h in targets:
            h(m)

    def enter_delay(self):
        self.depth += 1

    def exit_delay(self):
        self.depth -= 1
        if self.depth == 0:
            q, self.queue = self.queue, []
            for m in q:
                self.broadcast(m)

    def enter_ignore(self, t):
        self.ign[t] = self.ign.get(t, 0) + 1

    def exit_ignore(self, t):
        self.ign[t] -= 1


class RealAdapter:
    def __init__(self):
        from glue.core.hub import Hub, HubListener
        self.hub = Hub()
        self.HubListener = HubListener
        self.listeners = {}
        self.cms = []

    def listener(self, name):
        if name not in self.listeners:
            self.listeners[name] = self.HubListener()
        return self.listeners[name]

    def subscribe(self, l, cls, handler, filt, prio):
        self.hub.subscribe(self.listener(l), cls, handler=handler, filter=filt, priority=prio)

    def unsubscribe(self, l, cls):
        self.hub.unsubscribe(self.listener(l), cls)

    def unsubscribe_all(self, l):
        self.hub.unsubscribe_all(self.listener(l))

    def broadcast(self, m):
        self.hub.broadcast(m)

    def enter_delay(self):
        cm = self.hub.delay_callbacks()
        cm.__enter__()
        self.cms.append(cm)

    def exit_delay(self, exc=False):
        cm = self.cms.pop()
        if exc:
            e = RuntimeError('body failed')
            r = cm.__exit__(RuntimeError, e, None)
            assert not r
        else:
            cm.__exit__(None, None, None)

    def enter_ignore(self, t):
        cm = self.hub.ignore_callbacks(t)
        cm.__enter__()
        self.cms.append(cm)

    def exit_ignore(self, t):
        self.cms.pop().__exit__(None, None, None)


class RefAdapter(RefHub):
    def exit_delay(self, exc=False):
        RefHub.exit_delay(self)


FILTERS = {'all': lambda m: True, 'none': lambda m: False, 'even': lambda m: m.tag % 2 == 0}

# handler scripts: what a listener does when it receives a message (first `budget` receipts only)
SCRIPTS = {
    '-': [],
    'bX': [('b', 'X')],                                   # broadcast inside a handler
    'dbX': [('d+',), ('b', 'X'), ('d-',)],                # open a block, broadcast, close
    'u2': [('ua', 'L2')],                                 # unsubscribe another listener
    's3': [('s', 'L3', 'A', 5, 'all', '-')],              # subscribe a new listener
    'iXbX': [('i+', 'X'), ('b', 'X'), ('i-', 'X')],
}


def run_schedule(H, K, setup, tokens):
    """Execute on adapter H. Returns (per-step logs, error)"""
    log = []
    counter = {'tag': 0}
    budget = {}

    def make_handler(lname, script):
        def handler(m):
            log.append((lname, type(m).__name__, m.tag))
            k = budget.get(lname, 0)
            if script and k < 1:
                budget[lname] = k + 1
                for t in SCRIPTS[script]:
                    do(t)
        return handler

    def do(t):
        op = t[0]
        if op == 'b':
            counter['tag'] += 1
            from glue.core.message import Message
            H.broadcast(K[t[1]](None, tag=counter['tag']))
        elif op == 'd+':
            H.enter_delay()
        elif op == 'd-':
            H.exit_delay()
        elif op == 'd!':
            H.exit_delay(exc=True)
        elif op == 'i+':
            H.enter_ignore(K[t[1]])
        elif op == 'i-':
            H.exit_ignore(K[t[1]])
        elif op == 's':
            _, l, c, prio, filt, script = t
            H.subscribe(l, K[c], make_handler(l, script), FILTERS[filt], prio)
        elif op == 'u':
            H.unsubscribe(t[1], K[t[2]])
        elif op == 'ua':
            H.unsubscribe_all(t[1])
        else:
            raise ValueError(t)
    for t in setup:
        do(t)
    steps = []
    for t in tokens:
        do(t)
        steps.append(list(log))
    return steps


def well_nested(alphabet, n, max_depth=2):
    """all token sequences of length n that are balanced (every block closed)"""
    def rec(prefix, stack):
        if len(prefix) == n:
            if not stack:
                yield list(prefix)
            return
        remaining = n - len(prefix)
        if len(stack) > remaining:
            return
        for t in alphabet:
            op = t[0]
            if op in ('d+', 'i+'):
                if len(stack) >= max_depth:
                    continue
                stack.append(t)
                prefix.append(t)
                yield from rec(prefix, stack)
                prefix.pop()
                stack.pop()
            elif op in ('d-', 'd!'):
                if not stack or stack[-1][0] != 'd+':
                    continue
                top = stack.pop()
                prefix.append(t)
                yield from rec(prefix, stack)
                prefix.pop()
                stack.append(top)
            elif op == 'i-':
                if not stack or stack[-1][0] != 'i+' or stack[-1][1] != t[1]:
                    continue
                top = stack.pop()
                prefix.append(t)
                yield from rec(prefix, stack)
                prefix.pop()
                stack.append(top)
            else:
                prefix.append(t)
                yield from rec(prefix, stack)
                prefix.pop()
    yield from rec([], [])


SETUPS = [
    # (name, initial subscriptions)
    ('plain', [('s', 'L1', 'A', 10, 'all', '-'), ('s', 'L2', 'B', 20, 'all', '-'), ('s', 'L1', 'C', 10, 'even', '-')]),
    ('reentrant', [('s', 'L1', 'A', 10, 'all', 'bX'), ('s', 'L2', 'A', 5, 'all', '-'), ('s', 'L2', 'X', 5, 'all', '-')]),
    ('delay-in-handler', [('s', 'L1', 'A', 10, 'all', 'dbX'), ('s', 'L2', 'A', 5, 'all', '-'), ('s', 'L2', 'X', 5, 'all', '-')]),
    ('unsub-in-handler', [('s', 'L1', 'A', 10, 'all', 'u2'), ('s', 'L2', 'A', 5, 'all', '-'), ('s', 'L3', 'B', 7, 'all', 's3')]),
    ('ignore-in-handler', [('s', 'L1', 'B', 10, 'all', 'iXbX'), ('s', 'L2', 'X', 5, 'all', '-'), ('s', 'L2', 'A', 50, 'none', '-')]),
]

ALPHABET = [('b', 'A'), ('b', 'B'), ('b', 'C'), ('d+',), ('d-',), ('d!',), ('i+', 'B'), ('i-', 'B'),
            ('s', 'L2', 'C', 30, 'all', '-'), ('u', 'L1', 'A'), ('ua', 'L2')]


def fmt(tokens):
    return ' '.join(':'.join(str(x) for x in t) for t in tokens)


def run(tier, seed, R):
    K = classes()
    rng = random.Random(seed)
    N = 5 if tier == 'quick' else 6
    R.rule = ("real Hub vs reference hub (written from the statement) on ALL well-nested schedules of length <= %d over the alphabet "
              "{broadcast A|B|C (C<:B<:A), enter/exit delay (normal or by exception), enter/exit ignore(B), subscribe, unsubscribe, "
              "unsubscribe_all} x %d initial subscription tables (incl. handlers that broadcast, open delay blocks, ignore, subscribe and "
              "unsubscribe), comparing every listener's delivery log after every step; plus seeded random schedules of length 7-12. "
              "non-trivial = distinct schedule with >=1 block and >=1 delivery" % (N, len(SETUPS)))
    R.exhaustive = True

    def one(sname, setup, tokens):
        try:
            real = run_schedule(RealAdapter(), K, setup, tokens)
        except Exception as e:
            real = 'EXC %s: %s' % (type(e).__name__, e)
        ref = run_schedule(RefAdapter(), K, setup, tokens)
        nt = isinstance(real, list) and bool(ref[-1]) and any(t[0] in ('d+', 'i+') for t in tokens)
        R.count((sname, fmt(tokens)) if nt else None, 'hub-schedules')
        if real != ref:
            step = next((i for i in range(len(tokens)) if not isinstance(real, list) or real[i] != ref[i]), 0)
            kinds = sorted(set(t[0] for t in tokens[:step + 1]))
            sig = "hub|%s|%s" % (sname, 'exc' if not isinstance(real, list) else 'log')
            R.fail(sig, "setup=%s schedule=[%s]: at step %d real hub log %r, expected %r"
                   % (sname, fmt(tokens), step, real if not isinstance(real, list) else real[step], ref[step]),
                   "from bounded.c07_hub import replay\nsys.exit(replay(%r, %r))\n" % (sname, tokens))
    for n in range(1, N + 1):
        for sname, setup in SETUPS:
            if n == N and tier == 'quick' and sname not in ('plain', 'delay-in-handler'):
                continue
            for tokens in well_nested(ALPHABET, n):
                one(sname, setup, tokens)
    # the message classes glue itself defines: delivery must not depend on which kind of message it is (no kind is coalesced,
    # dropped or reordered).  Each real class is the root 'A' of the harness hierarchy in turn (constructor replaced by Message's).
    import inspect
    from glue.core import message as GM
    real = [c for n, c in sorted(vars(GM).items()) if inspect.isclass(c) and issubclass(c, GM.Message) and c is not GM.Message]
    n_real = 4 if tier == 'quick' else 5
    for base in real:
        def mk(name, parent):
            return type(name, (parent,), {'__init__': lambda self, sender, tag=None: GM.Message.__init__(self, sender, tag)})
        A = mk('MA', base)
        B = mk('MB', A)
        K2 = {'A': A, 'B': B, 'C': mk('MC', B), 'X': mk('MX', GM.Message)}
        for sname, setup in SETUPS:
            if sname not in ('plain', 'delay-in-handler'):
                continue
            for n in range(2, n_real + 1):
                for tokens in well_nested(ALPHABET, n):
                    if not any(t[0] == 'd+' for t in tokens) or sum(1 for t in tokens if t[0] == 'b') < 2:
                        continue
                    try:
                        got = run_schedule(RealAdapter(), K2, setup, tokens)
                    except Exception as e:
                        got = 'EXC %s: %s' % (type(e).__name__, e)
                    ref = run_schedule(RefAdapter(), K2, setup, tokens)
                    R.count(('real-class', base.__name__, sname, fmt(tokens)), 'hub-schedules-real-message-classes')
                    if got != ref:
                        R.fail("hub|message-kind|%s" % base.__name__, "messages of kind %s, setup=%s schedule=[%s]: real hub log %r, expected %r"
                               % (base.__name__, sname, fmt(tokens), got if not isinstance(got, list) else got[-1], ref[-1]), None)
    # random longer schedules
    for _ in range(1500 if tier == 'quick' else 20000):
        n = rng.randint(7, 12)
        tokens, stack = [], []
        while len(tokens) < n or stack:
            if len(tokens) >= n and stack:
                top = stack.pop()
                tokens.append(('d-',) if top[0] == 'd+' else ('i-', top[1]))
                continue
            t = rng.choice(ALPHABET)
            if t[0] in ('d+', 'i+'):
                if len(stack) >= 3:
                    continue
                stack.append(t)
            elif t[0] in ('d-', 'd!'):
                if not stack or stack[-1][0] != 'd+':
                    continue
                stack.pop()
            elif t[0] == 'i-':
                if not stack or stack[-1][0] != 'i+':
                    continue
                stack.pop()
            tokens.append(t)
        sname, setup = rng.choice(SETUPS)
        one(sname, setup, tokens)
    R.samples.append({"hub-schedule": "setup=delay-in-handler  d+ b:A d+ b:B d- d-  (compare logs of L1, L2 after each step)"})


def replay(sname, tokens):
    K = classes()
    setup = dict(SETUPS)[sname]
    tokens = [tuple(t) for t in tokens]
    try:
        real = run_schedule(RealAdapter(), K, setup, tokens)
    except Exception as e:
        print("real hub raised", type(e).__name__, e)
        return 1
    ref = run_schedule(RefAdapter(), K, setup, tokens)
    for i, (a, b) in enumerate(zip(real, ref)):
        if a != b:
            print("step %d (%s): real %r\n expected %r" % (i, tokens[i], a, b))
            return 1
    print("logs agree", real[-1])
    return 0
