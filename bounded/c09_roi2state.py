"""C09 bounded stand-in: for every 2-d region and every pair of axes (numeric or categorical), the selection returned by
roi_to_subset_state selects a data element exactly when its plotted position (category index for categorical axes) lies in the
region; rows whose plotted position is within the boundary band are excluded."""
import itertools
import math
import random

import numpy as np

BAND = 1e-6


def make_data(cat_x, cat_y, explicit):
    """rows on a grid of plotted positions; categorical attributes carry the labels at those positions"""
    from glue.core import Data
    from glue.core.component import CategoricalComponent
    nx, ny = len(cat_x), len(cat_y)
    ix, iy = np.meshgrid(np.arange(nx), np.arange(ny))
    ix, iy = ix.ravel(), iy.ravel()
    # numeric attributes: integer positions, half positions and a NaN
    numx = np.concatenate([ix.astype(float), ix + 0.5, [np.nan]])
    numy = np.concatenate([iy.astype(float), iy + 0.25, [1.0]])
    ixx = np.concatenate([ix, ix, [0]])
    iyy = np.concatenate([iy, iy, [0]])
    d = Data(label='d', nx=numx, ny=numy)
    lx = np.array(cat_x)[ixx]
    ly = np.array(cat_y)[iyy]
    if explicit:
        # rows whose label is not one of the listed categories (no plotted position, hence in no region) although a listed label is a prefix of it
        lx = np.concatenate([lx.astype('U8'), [cat_x[0] + 'zz', cat_x[-1]]])
        ly = np.concatenate([ly.astype('U8'), [cat_y[0], cat_y[-1] + 'zz']])
        numx = np.concatenate([numx, [0.0, 0.0]])
        numy = np.concatenate([numy, [0.0, 0.0]])
        d = Data(label='d', nx=numx, ny=numy)
    d.add_component(CategoricalComponent(lx, categories=np.array(cat_x) if explicit else None), 'cx')
    d.add_component(CategoricalComponent(ly, categories=np.array(cat_y) if explicit else None), 'cy')
    return d


def plotted(d, att, categorical):
    comp = d.get_component(att)
    if categorical:
        return np.asarray(comp.codes, dtype=float)
    return np.asarray(d[att], dtype=float)


def contains(roi, px, py):
    from glue.core.roi import CategoricalROI
    with np.errstate(invalid='ignore'):
        return np.asarray(roi.contains(px, py), dtype=bool)


def band_of(roi, categorical_axis):
    """width of the boundary band: 1e-6, except for curved regions on a categorical axis, which glue evaluates through their
    100-vertex polygon (to_polygon): there the band is the polygon's sagitta, radius * (1 - cos(pi / 99)) ~ 5e-4 radius"""
    if not categorical_axis:
        return BAND
    r = max([abs(getattr(roi, a)) for a in ('radius', 'radius_x', 'radius_y', 'outer_radius') if getattr(roi, a, None) is not None] or [0])
    return max(BAND, 6e-4 * r)


def near_boundary(roi, px, py, band=BAND):
    BAND = band
    base = contains(roi, px, py)
    near = np.zeros(px.shape, bool)
    for dx, dy in ((BAND, 0), (-BAND, 0), (0, BAND), (0, -BAND), (BAND, BAND), (-BAND, -BAND), (BAND, -BAND), (-BAND, BAND)):
        near |= contains(roi, px + dx, py + dy) != base
    # an element without a plotted position (NaN value, label outside the listed categories) lies in no region: expected unselected, not skipped for being NaN (only for lying within the band of the boundary in the other coordinate)
    return near


def rois(extra_rng=None, n_extra=0):
    from glue.core import roi as G
    out = []
    if extra_rng is not None:
        # thorough tier: random regions (named by their parameters so that replays can rebuild them)
        r = extra_rng
        for i in range(n_extra):
            kind = r.choice(('xrange', 'yrange', 'rect', 'rect-rotated', 'circle', 'ellipse', 'polygon'))
            a, b = sorted((round(r.uniform(-2, 6), 2), round(r.uniform(-2, 6), 2)))
            c, e = sorted((round(r.uniform(-2, 6), 2), round(r.uniform(-2, 6), 2)))
            if kind == 'xrange':
                out.append(('xrange(%g,%g)' % (a, b), G.XRangeROI(a, b)))
            elif kind == 'yrange':
                out.append(('yrange(%g,%g)' % (a, b), G.YRangeROI(a, b)))
            elif kind == 'rect':
                out.append(('rect(%g,%g,%g,%g)' % (a, b, c, e), G.RectangularROI(a, b, c, e)))
            elif kind == 'rect-rotated':
                th = round(r.uniform(0.1, 3.0), 2)
                out.append(('rect-rotated(%g,%g,%g,%g,%g)' % (a, b, c, e, th), G.RectangularROI(a, b, c, e, theta=th)))
            elif kind == 'circle':
                out.append(('circle(%g,%g,%g)' % (a, c, abs(b - a) / 2 + 0.3), G.CircularROI(a, c, abs(b - a) / 2 + 0.3)))
            elif kind == 'ellipse':
                th = round(r.uniform(0, 3.0), 2)
                out.append(('ellipse(%g,%g,%g,%g,%g)' % (a, c, abs(b - a) / 2 + 0.3, abs(e - c) / 2 + 0.2, th), G.EllipticalROI(a, c, abs(b - a) / 2 + 0.3, abs(e - c) / 2 + 0.2, theta=th)))
            else:
                n = r.randrange(3, 7)
                vx = [round(r.uniform(-1, 5), 2) for _ in range(n)]
                vy = [round(r.uniform(-1, 5), 2) for _ in range(n)]
                out.append(('polygon(%r,%r)' % (vx, vy), G.PolygonalROI(vx, vy)))
    for lo, hi in ((-0.5, 1.5), (0.4, 2.6), (-3.0, 0.5), (1.2, 1.8), (-5.0, 10.0), (2.5, 3.5), (0.9, 1.1), (1.5, 0.5)):
        out.append(('xrange(%g,%g)' % (lo, hi), G.XRangeROI(lo, hi)))
        out.append(('yrange(%g,%g)' % (lo, hi), G.YRangeROI(lo, hi)))
    for (a, b, c, e) in ((-0.5, 1.5, -0.5, 0.5), (0.6, 2.4, 0.3, 2.7), (-2, 9, -2, 9), (1.7, 1.9, 0.1, 0.9)):
        out.append(('rect(%g,%g,%g,%g)' % (a, b, c, e), G.RectangularROI(a, b, c, e)))
    out.append(('rect-rotated', G.RectangularROI(-0.6, 2.6, 0.7, 1.3, theta=0.6)))
    out.append(('circle', G.CircularROI(1.0, 1.0, 1.2)))
    out.append(('circle-small', G.CircularROI(2.0, 0.0, 0.4)))
    out.append(('ellipse', G.EllipticalROI(1.2, 0.8, 1.9, 0.7, theta=0.4)))
    out.append(('polygon-open', G.PolygonalROI([-0.5, 2.5, 2.5, 1.5, 1.5, -0.5], [-0.5, -0.5, 1.5, 1.5, 2.5, 2.5])))
    out.append(('polygon-closed', G.PolygonalROI([-0.5, 2.6, 0.9, -0.5], [-0.4, 0.2, 2.7, -0.4])))
    out.append(('polygon-last-vertex-extreme', G.PolygonalROI([0.5, 0.5, 1.5, 3.6], [-0.5, 2.5, 2.5, 1.0])))
    out.append(('annulus', G.CircularAnnulusROI(1.0, 1.0, 0.6, 1.7)))
    # curved / polygonal regions reaching well below position 0 (drawn after zooming out past the first category) and beyond the last one
    out.append(('circle-around-origin', G.CircularROI(0.0, 0.0, 2.6)))
    out.append(('circle-wide', G.CircularROI(1.0, 1.0, 7.3)))
    out.append(('ellipse-negative', G.EllipticalROI(-1.0, 1.0, 2.7, 1.6, theta=0.3)))
    out.append(('rect-rotated-negative', G.RectangularROI(-3.4, 1.4, -2.2, 1.8, theta=0.5)))
    out.append(('polygon-negative', G.PolygonalROI([-3.5, 1.5, 2.4, -1.2], [-2.5, -1.4, 2.6, 3.3])))
    return out


CATSETS = [(['a', 'b', 'c'], ['u', 'v', 'w']), (['c', 'a', 'b'], ['w', 'u', 'v']), (['a'], ['u', 'v']), (['b', 'a', 'd', 'c', 'e'], ['z', 'y', 'x', 'w'])]


def case(rname, roi, kinds, cats, explicit):
    from glue.core.subset import roi_to_subset_state
    from glue.core.roi import RangeROI
    cat_x, cat_y = cats
    if not explicit:
        cat_x, cat_y = sorted(cat_x), sorted(cat_y)
    d = make_data(cat_x, cat_y, explicit)
    xatt = d.id['cx'] if kinds[0] == 'cat' else d.id['nx']
    yatt = d.id['cy'] if kinds[1] == 'cat' else d.id['ny']
    xc = d.get_component(xatt).categories if kinds[0] == 'cat' else None
    yc = d.get_component(yatt).categories if kinds[1] == 'cat' else None
    px, py = plotted(d, xatt, kinds[0] == 'cat'), plotted(d, yatt, kinds[1] == 'cat')
    try:
        state = roi_to_subset_state(roi, x_att=xatt, y_att=yatt, x_categories=xc, y_categories=yc)
        got = np.asarray(state.to_mask(d), dtype=bool)
    except NotImplementedError:
        return None
    except Exception as e:
        return ('exception:%s' % type(e).__name__, "%s: %s" % (type(e).__name__, e))
    exp = contains(roi, px, py)
    skip = near_boundary(roi, px, py, band_of(roi, 'cat' in kinds))
    bad = np.flatnonzero((got != exp) & ~skip)
    if bad.size:
        i = bad[0]
        return ('selection', "element at plotted position (%g, %g) [x=%s, y=%s] is %sselected, the region %s it (%d of %d elements differ)"
                % (px[i], py[i], d[xatt][i], d[yatt][i], '' if got[i] else 'not ', 'contains' if exp[i] else 'does not contain', bad.size, int((~skip).sum())))
    return None


def cross_dataset(R, tier):
    """a region drawn in the pixel frame of one dataset and evaluated on a dataset linked to it (other rank, other axis numbering):
    an element of the other dataset is selected exactly when its linked position lies in the region"""
    from glue.core import Data, DataCollection
    from glue.core.link_helpers import LinkSame
    from glue.core.subset import roi_to_subset_state
    configs = {
        # name: (shape of A, shape of B, [(A axis, B axis)] linked pixel axes, (x axis of A, y axis of A))
        'image->cube': ((5, 6), (3, 5, 6), [(0, 1), (1, 2)], (1, 0)),
        'image->cube-transposed': ((5, 6), (6, 3, 5), [(0, 2), (1, 0)], (1, 0)),
        'cube->image': ((3, 5, 6), (5, 6), [(1, 0), (2, 1)], (2, 1)),
        'image->image-transposed': ((5, 6), (6, 5), [(0, 1), (1, 0)], (1, 0)),
        'image->same-frame': ((5, 6), (5, 6), [(0, 0), (1, 1)], (1, 0)),
    }
    for cname, (sa, sb, pairs, (xa, ya)) in configs.items():
        for rname, roi in rois():
            if rname.startswith(('xrange', 'yrange')) and tier == 'quick' and rname not in ('xrange(0.4,2.6)', 'yrange(0.4,2.6)'):
                continue
            A = Data(label='A', v=np.zeros(sa))
            B = Data(label='B', w=np.zeros(sb))
            dc = DataCollection([A, B])
            for a, b in pairs:
                dc.add_link(LinkSame(A.pixel_component_ids[a], B.pixel_component_ids[b]))
            try:
                state = roi_to_subset_state(roi, x_att=A.pixel_component_ids[xa], y_att=A.pixel_component_ids[ya])
            except NotImplementedError:
                continue
            amap = dict(pairs)
            grids = np.indices(sb).astype(float)
            px, py = grids[amap[xa]], grids[amap[ya]]
            exp = contains(roi, px, py)
            skip = near_boundary(roi, px.ravel(), py.ravel()).reshape(sb)
            for target, tx, ty, shape in ((B, px, py, sb),):
                try:
                    got = np.asarray(target.get_mask(state), dtype=bool)
                    err = None
                    if got.shape != shape:
                        err = ('shape', "mask shape %r, dataset shape %r" % (got.shape, shape))
                    else:
                        bad = np.argwhere((got != exp) & ~skip)
                        if len(bad):
                            i = tuple(bad[0])
                            err = ('selection', "element %r of B (linked position x=%g, y=%g) is %sselected, the region %s it (%d elements differ)"
                                   % (i, px[i], py[i], '' if got[i] else 'not ', 'contains' if exp[i] else 'does not contain', len(bad)))
                except Exception as e:
                    err = ('exception:%s' % type(e).__name__, "%s: %s" % (type(e).__name__, e))
                R.count((cname, rname), 'region-on-linked-dataset')
                if err:
                    R.fail("roi2state|linked-dataset|%s|%s|%s" % (cname, rname.split('(')[0], err[0]),
                           "region %s drawn on the pixel axes (%d, %d) of A %r, evaluated on B %r linked by %r: %s" % (rname, xa, ya, sa, sb, pairs, err[1]), None)


def run(tier, seed, R):
    rng = random.Random(seed)
    R.rule = ("every region kind (x/y ranges at 8 positions relative to the integer category positions incl. negative and reversed bounds, rectangles, rotated rectangle, "
              "circles, ellipse, open/closed/concave polygons, annulus) x 4 axis-kind combinations x 4 category sets (1-5 categories, sorted and explicitly ordered) on a dataset "
              "with rows at every integer and half-integer plotted position (+NaN): mask of roi_to_subset_state(...) vs region.contains(plotted x, plotted y), rows within 1e-6 "
              "of the boundary excluded; plus every region drawn on the pixel axes of one dataset and evaluated on a linked dataset of another rank / axis numbering (5 linkings). "
              "non-trivial = distinct case whose expected selection is neither empty nor everything")
    R.exhaustive = True
    all_rois = rois() + (rois(rng, 60)[:60] if tier != 'quick' else [])
    for (rname, roi), kinds, (ci, cats), explicit in itertools.product(all_rois, itertools.product(('num', 'cat'), repeat=2), enumerate(CATSETS), (False, True)):
        r = case(rname, roi, kinds, cats, explicit)
        R.count((rname, kinds, ci, explicit), 'roi-to-selection')
        if r is not None:
            rk = rname.split('(')[0]
            R.fail("roi2state|%s|%s-%s|%s" % (rk, kinds[0], kinds[1], r[0]),
                   "region %s on axes (%s, %s), categories %r (%s order): %s" % (rname, kinds[0], kinds[1], cats, 'explicit' if explicit else 'sorted', r[1]),
                   "from bounded.c09_roi2state import replay\nsys.exit(replay(%r, %r, %d, %r))\n" % (rname, kinds, ci, explicit))
    cross_dataset(R, tier)
    R.samples.append({"case": "polygon-open on axes (cat, num) with categories ['c','a','b'] in explicit order vs region.contains(code, value)"})


def replay(rname, kinds, ci, explicit, seed=0):
    allr = dict(rois())
    if rname not in allr:
        for k in range(0, 8):
            allr.update(dict(rois(random.Random(seed + 1000 * k), 60)[:60]))
    roi = allr[rname]
    r = case(rname, roi, tuple(kinds), CATSETS[ci], explicit)
    print(r)
    return 1 if r else 0
