"""C03 bounded stand-in.
(1) discover_links on ALL link graphs over a small universe against a least-fixed-point oracle with shortest-chain depths;
(2) histories on a real DataCollection (add/remove link, component, dataset; delayed updates) comparing, after every step and
    for every (dataset, attribute) pair: accessibility vs BFS on the current links, values vs the attribute's ground truth,
    masks of selections, and the absence of references to removed objects."""
import itertools
import random

import numpy as np


# ------------------------------------------------------------------------------------------------ (1) closure
def oracle_closure(base, links):
    """links: list of (from_tuple, to). returns depth dict of the least fixed point with shortest depths"""
    depth = {c: 0 for c in base}
    changed = True
    while changed:
        changed = False
        for fr, to in links:
            if all(f in depth for f in fr):
                cost = (max(depth[f] for f in fr) + 1) if fr else 1
                if to not in depth or cost < depth[to]:
                    if to in base:
                        continue
                    depth[to] = cost
                    changed = True
    return depth


def closure_exhaustive(R, tier, rng):
    from glue.core import Data
    from glue.core.component_id import ComponentID
    from glue.core.component_link import ComponentLink
    from glue.core.link_manager import discover_links, accessible_links
    d = Data(a=[1., 2.], b=[3., 4.], label='d')
    own = [d.id['a'], d.id['b']]
    foreign = [ComponentID('f%d' % i) for i in range(3)]
    universe = own + foreign                     # 5 ids; base = the dataset's own main + pixel components
    base = set(d.main_components + d.coordinate_components)
    fsets = [()] + [tuple(c) for k in (1, 2) for c in itertools.combinations(range(5), k)]
    shapes = [(fr, to) for fr in fsets for to in range(5) if to not in fr]
    nl = 2 if tier == 'quick' else 3
    count = 0
    combos = itertools.chain.from_iterable(itertools.combinations_with_replacement(shapes, k) for k in range(0, nl + 1))
    if tier != 'quick':
        combos = list(combos)
        combos = combos[:len(shapes) + 1 + 2000] + rng.sample(combos, 20000)
    # plus seeded random graphs with 3-6 links (cycles, diamonds, multi-input)
    extra = [tuple(rng.choice(shapes) for _ in range(rng.randint(3, 6))) for _ in range(1500 if tier == 'quick' else 8000)]
    for combo in itertools.chain(combos, extra):
        links = []
        for fr, to in combo:
            if fr:
                links.append(ComponentLink([universe[i] for i in fr], universe[to], using=(lambda *a: a[0])))
            else:
                continue
        spec_links = [(tuple(universe[i] for i in fr), universe[to]) for fr, to in combo if fr]
        for order in (links, links[::-1]):
            res = discover_links(d, order)
            exp = oracle_closure(base, spec_links)
            ok = set(res) == set(exp) - base
            why = ''
            if not ok:
                why = "reachable set %s != expected %s" % (sorted(c.label for c in res), sorted(c.label for c in set(exp) - base))
            else:
                for to, link in res.items():
                    fr = link.get_from_ids()
                    if link.get_to_id() is not to or not all(f in exp for f in fr):
                        ok, why = False, "link chosen for %s does not derive it from reachable ids" % to.label
                        break
                    if 1 + max(exp[f] for f in fr) != exp[to]:
                        ok, why = False, "link chosen for %s is not on a shortest chain (depth %d, shortest %d)" % (to.label, 1 + max(exp[f] for f in fr), exp[to])
                        break
            acc = accessible_links(list(exp), order)
            if ok and set(map(id, acc)) != set(id(l) for l, (fr, to) in zip(links, spec_links) if all(f in exp for f in fr)):
                ok, why = False, "accessible_links disagrees with 'all inputs known'"
            count += 1
            R.count(('closure', combo) if len(exp) > len(base) else None, 'closure-graphs')
            if not ok:
                R.fail("closure|%s" % why.split(' ')[0], "discover_links on links %r: %s" % ([(fr, to) for fr, to in combo], why),
                       "from bounded.c03_links import replay_closure\nsys.exit(replay_closure(%r))\n" % (list(combo),))
                return


def replay_closure(combo):
    from glue.core import Data
    from glue.core.component_id import ComponentID
    from glue.core.component_link import ComponentLink
    from glue.core.link_manager import discover_links
    d = Data(a=[1., 2.], b=[3., 4.], label='d')
    universe = [d.id['a'], d.id['b']] + [ComponentID('f%d' % i) for i in range(3)]
    base = set(d.main_components + d.coordinate_components)
    links = [ComponentLink([universe[i] for i in fr], universe[to], using=(lambda *a: a[0])) for fr, to in combo if fr]
    spec_links = [(tuple(universe[i] for i in fr), universe[to]) for fr, to in combo if fr]
    exp = oracle_closure(base, spec_links)
    for order in (links, links[::-1]):
        res = discover_links(d, order)
        if set(res) != set(exp) - base:
            print("reachable differs")
            return 1
        for to, link in res.items():
            if 1 + max(exp[f] for f in link.get_from_ids()) != exp[to]:
                print("not shortest for", to.label)
                return 1
    return 0


# ------------------------------------------------------------------------------------------------ (2) histories
N = 4


class LinkWorld:
    """every attribute c has ground-truth values alpha_c * t + beta_c for a hidden t; all link functions are consistent with it"""

    def __init__(self):
        from glue.core import Data, DataCollection
        self.t = np.array([0., 1., 2.5, -1.])
        self.coef = {}
        self.D = {}
        specs = {'A': ['a1', 'a2'], 'B': ['b1'], 'C': ['c1', 'c2'], 'E': ['e1']}
        k = 0
        for name, comps in specs.items():
            kw = {}
            for c in comps:
                k += 1
                al, be = float(k), float(10 * k)
                kw[c] = al * self.t + be
                self.coef[c] = (al, be)
            self.D[name] = Data(label=name, **kw)
        self.cid = {c: d.id[c] for d in self.D.values() for c in self.coef if c in [x.label for x in d.main_components]}
        # an attribute of A computed from a1 inside the dataset (it goes when a1 goes); links of other datasets may hang on it
        from glue.core.component_id import ComponentID
        from glue.core.component_link import ComponentLink
        self.coef['a3'] = (float(k + 1), float(10 * (k + 1)))
        a3 = ComponentID('a3', parent=self.D['A'])
        self.D['A'].add_component_link(ComponentLink([self.cid['a1']], a3, using=self.fn('a1', 'a3'), inverse=self.fn('a3', 'a1')))
        self.cid['a3'] = a3
        self.dependants = {'a1': ['a3']}
        self.dc = DataCollection([self.D['A'], self.D['B'], self.D['C']])
        self.links = []          # (link object, [from labels], to label, two_way)
        self.removed_cids = []
        self.removed_data = []
        self.extra = 0

    def fn(self, frm, to):
        a1, b1 = self.coef[frm]
        a2, b2 = self.coef[to]
        return lambda x, *rest: (x - b1) / a1 * a2 + b2

    def make_link(self, frs, to, two_way):
        from glue.core.component_link import ComponentLink
        using = self.fn(frs[0], to)
        inverse = self.fn(to, frs[0]) if (two_way and len(frs) == 1) else None
        return ComponentLink([self.cid[f] for f in frs], self.cid[to], using=using, inverse=inverse)

    def entry(self, obj, edges):
        labels = set()
        for frs, to in edges:
            labels |= set(frs) | {to}
        return (obj, edges, labels)

    def do(self, op):
        dc = self.dc
        k = op[0]
        if k == 'link':
            _, frs, to, two = op
            if not all(f in self.cid for f in frs + (to,)):
                return
            if not all(any(self.cid[f].parent is x for x in dc) for f in frs + (to,)):
                return           # links are only added between datasets of the collection
            l = self.make_link(frs, to, two)
            edges = [(tuple(frs), to)] + ([((to,), frs[0])] if (two and len(frs) == 1) else [])
            self.links.append(self.entry(l, edges))
            dc.add_link(l)
        elif k == 'multilink':
            # a link helper with n inputs and m outputs, forwards and backwards, all consistent with the hidden parameter
            from glue.core.link_helpers import MultiLink
            _, frs, tos = op
            if not all(f in self.cid for f in frs + tos):
                return
            if not all(any(self.cid[f].parent is x for x in dc) for f in frs + tos):
                return
            fw = [self.fn(frs[0], t) for t in tos]
            bw = [self.fn(tos[0], f) for f in frs]
            forwards = (lambda *a: tuple(g(a[0]) for g in fw)) if len(tos) > 1 else (lambda *a: fw[0](a[0]))
            backwards = (lambda *a: tuple(g(a[0]) for g in bw)) if len(frs) > 1 else (lambda *a: bw[0](a[0]))
            l = MultiLink([self.cid[f] for f in frs], [self.cid[t] for t in tos], forwards=forwards, backwards=backwards)
            edges = [(tuple(frs), t) for t in tos] + [(tuple(tos), f) for f in frs]
            self.links.append(self.entry(l, edges))
            dc.add_link(l)
        elif k == 'twoway':
            from glue.core.link_helpers import LinkTwoWay
            _, a, b = op
            if not (a in self.cid and b in self.cid) or not all(any(self.cid[f].parent is x for x in dc) for f in (a, b)):
                return
            l = LinkTwoWay(self.cid[a], self.cid[b], self.fn(a, b), self.fn(b, a))
            self.links.append(self.entry(l, [((a,), b), ((b,), a)]))
            dc.add_link(l)
        elif k == 'unlink':
            i = op[1]
            if i < len(self.links):
                l = self.links.pop(i)
                dc.remove_link(l[0])
        elif k == 'set_links':
            keep = self.links[:op[1]]
            self.links = keep
            dc.set_links([l[0] for l in keep])
        elif k == 'rmcomp':
            c = op[1]
            if c in self.cid:
                cid = self.cid.pop(c)
                owner = cid.parent
                owner.remove_component(cid)
                self.removed_cids.append(cid)
                gone = [c]
                for dep in self.dependants.get(c, []):
                    if dep in self.cid:
                        self.removed_cids.append(self.cid.pop(dep))
                        gone.append(dep)
                if any(owner is x for x in dc):
                    self.links = [l for l in self.links if not any(g in l[2] for g in gone)]
        elif k == 'addcomp':
            self.extra += 1
            name = 'x%d' % self.extra
            al, be = float(20 + self.extra), 1.0
            self.coef[name] = (al, be)
            d = self.D[op[1]]
            d.add_component(al * self.t + be, name)
            self.cid[name] = d.id[name]
        elif k == 'rmdata':
            d = self.D[op[1]]
            if d in dc:
                dc.remove(d)
                self.removed_data.append(d)
                labels = [c.label for c in d.main_components]
                self.links = [l for l in self.links if not any(f in labels for f in l[2])]
        elif k == 'adddata':
            d = self.D[op[1]]
            if d not in dc:
                dc.append(d)
                self.removed_data = [x for x in self.removed_data if x is not d]
        elif k == 'delayed':
            with dc.delay_link_manager_update():
                for o in op[1]:
                    self.do(o)
        else:
            raise ValueError(op)

    def expected_access(self):
        """for each member dataset: set of attribute labels readable (own + through links and inverses)"""
        edges = []
        for l, es, labels in self.links:
            edges.extend(es)
        # the links inside member datasets count as well: whoever reaches a1 reaches the attribute computed from it
        if 'a1' in self.cid and 'a3' in self.cid and any(x is self.D['A'] for x in self.dc):
            edges.append((('a1',), 'a3'))
            edges.append((('a3',), 'a1'))          # the internal link is invertible: whoever reaches a3 reaches a1 as well
        out = {}
        for d in self.dc:
            own = set(c.label for c in list(d.main_components) + list(d.derived_components) if c.label in self.coef)
            dep = oracle_closure(own, edges)
            out[d.label] = set(dep)
        return out

    def check(self):
        from glue.core.exceptions import IncompatibleAttribute
        exp = self.expected_access()
        member_labels = set()
        for d in self.dc:
            member_labels |= set(c.label for c in d.main_components)
        for d in self.dc:
            for c, cid in self.cid.items():
                if not any(cid.parent is x for x in self.dc):
                    continue
                try:
                    v = np.asarray(d[cid], dtype=float)
                    got = True
                except IncompatibleAttribute:
                    got = False
                want = c in exp[d.label]
                if got != want:
                    return ('access', "dataset %s %s read attribute %s but a chain of current links %s"
                            % (d.label, 'can' if got else 'cannot', c, 'does not exist' if got else 'exists'))
                if got:
                    al, be = self.coef[c]
                    if not np.allclose(v, al * self.t + be, rtol=1e-9, atol=1e-9):
                        return ('values', "dataset %s reads %s = %s, ground truth %s" % (d.label, c, v.tolist(), (al * self.t + be).tolist()))
                # a selection on the attribute
                st = cid > (self.coef[c][0] * 0.5 + self.coef[c][1])
                try:
                    m = np.asarray(d.get_mask(st))
                    gm = True
                except IncompatibleAttribute:
                    gm = False
                if gm != want:
                    return ('mask-access', "selection on %s is %s in dataset %s, expected %s" % (c, 'evaluated' if gm else 'incompatible', d.label,
                                                                                            'evaluated' if want else 'incompatible'))
                if gm and not np.array_equal(m, self.t > 0.5 if self.coef[c][0] > 0 else self.t < 0.5):
                    return ('mask', "selection %s > mid evaluated in %s gives %s" % (c, d.label, m.astype(int).tolist()))
        # no reference to removed objects
        flat = []
        for link in self.dc.external_links:
            flat.extend([link] if hasattr(link, 'get_from_ids') else list(link))       # link helpers are collections of links
        for link in flat:
            ids = list(link.get_from_ids()) + [link.get_to_id()]
            for cid in ids:
                if any(cid is r for r in self.removed_cids):
                    return ('dangling-link', "a registered link still mentions the removed attribute %s" % cid.label)
                if any(cid.parent is r for r in self.removed_data):
                    return ('dangling-link', "a registered link still mentions attribute %s of the removed dataset %s" % (cid.label, cid.parent.label))
        for d in self.dc:
            for cid in d.externally_derivable_components:
                if any(cid is r for r in self.removed_cids) or any(cid.parent is r for r in self.removed_data):
                    return ('dangling-derivable', "dataset %s still lists %s (removed) as derivable" % (d.label, cid.label))
        return None


LINK_OPS = [('multilink', ('a1',), ('c1', 'c2')), ('multilink', ('a1', 'a2'), ('b1',)), ('multilink', ('a1', 'a2'), ('c1', 'c2')), ('twoway', 'a2', 'e1'),
            ('link', ('a1',), 'b1', True), ('link', ('b1',), 'c1', False), ('link', ('a1',), 'c1', False), ('link', ('c1',), 'a2', True),
            ('link', ('a1', 'b1'), 'c2', False), ('link', ('c2',), 'e1', True), ('link', ('b1',), 'a1', False),
            ('link', ('a3',), 'b1', True), ('link', ('a3',), 'c2', False), ('twoway', 'a3', 'c1')]
OTHER_OPS = [('unlink', 0), ('unlink', 1), ('set_links', 1), ('set_links', 0), ('rmcomp', 'b1'), ('rmcomp', 'a1'), ('rmcomp', 'a1'), ('rmcomp', 'a3'), ('rmcomp', 'c2'), ('addcomp', 'B'),
             ('rmdata', 'B'), ('rmdata', 'C'), ('adddata', 'E'), ('adddata', 'B')]


def run_history(seq):
    w = LinkWorld()
    for i, op in enumerate(seq):
        try:
            w.do(op)
        except Exception as e:
            return i, ('exception:%s' % type(e).__name__, "%s: %s" % (type(e).__name__, e))
        r = w.check()
        if r is not None:
            return i, r
    return None


def inconsistent_shortcut(R):
    """values must follow a SHORTEST chain: a 2-step chain and a direct link with a different function"""
    from glue.core import Data, DataCollection
    from glue.core.component_link import ComponentLink
    for order in ('chain-first', 'shortcut-first', 'chain-then-shortcut-then-unlink'):
        d1 = Data(x=[1., 2., 3.], label='d1')
        d2 = Data(y=[0., 0., 0.], label='d2')
        d3 = Data(z=[0., 0., 0.], label='d3')
        dc = DataCollection([d1, d2, d3])
        xy = ComponentLink([d1.id['x']], d2.id['y'], using=lambda x: x + 1)
        yz = ComponentLink([d2.id['y']], d3.id['z'], using=lambda y: 2 * y)
        xz = ComponentLink([d1.id['x']], d3.id['z'], using=lambda x: 100 * x)
        if order == 'chain-first':
            dc.add_link(xy), dc.add_link(yz), dc.add_link(xz)
            exp = 100 * np.array([1., 2., 3.])
        elif order == 'shortcut-first':
            dc.add_link(xz), dc.add_link(xy), dc.add_link(yz)
            exp = 100 * np.array([1., 2., 3.])
        else:
            dc.add_link(xy), dc.add_link(yz), dc.add_link(xz), dc.remove_link(xy)
            exp = 100 * np.array([1., 2., 3.])
        R.count(('shortcut', order), 'shortest-chain-values')
        try:
            got = np.asarray(d1[d3.id['z']])
            ok = np.allclose(got, exp)
            det = "d1 reads z = %s, the shortest chain (direct link) gives %s" % (got.tolist(), exp.tolist())
        except Exception as e:
            ok, det = False, "reading z from d1 raised %s: %s" % (type(e).__name__, e)
        if not ok:
            R.fail("shortest-chain|%s" % order, "links added as %s: %s" % (order, det), None)


def run(tier, seed, R):
    rng = random.Random(seed)
    R.rule = ("(1) discover_links/accessible_links on ALL multisets of <= 2 (3 thorough) links over a universe of 5 ids (inputs of size 0-2, both link orders) "
              "+ seeded random graphs of 3-6 links, against a least-fixed-point oracle with shortest depths; (2) real DataCollection with 4 datasets whose attributes "
              "share a hidden ground truth: ALL histories of length <= 3 (4 thorough) over {11 links (one-way, two-way, two-input, multi-links with 1<->2, 2<->1 and 2<->2 sides, a two-way helper), unlink, set_links, remove/add component, "
              "remove/add dataset} + delayed-update blocks + random histories of length 5-8; after every step accessibility (BFS), values, selection masks and dangling references "
              "are checked for every (dataset, attribute); (3) shortest-chain values with inconsistent link functions. non-trivial = distinct graph/history with >= 1 derived attribute")
    R.exhaustive = True
    closure_exhaustive(R, tier, rng)
    inconsistent_shortcut(R)
    L = 3 if tier == 'quick' else 4
    ops = LINK_OPS + OTHER_OPS

    def one(seq):
        r = run_history(seq)
        nt = sum(1 for o in seq if o[0] == 'link') >= 1 and len(seq) >= 2
        R.count(tuple(map(str, seq)) if nt else None, 'link-histories')
        if r is not None:
            i, (kind, detail) = r
            kinds = sorted(set(o[0] for o in seq[:i + 1]))
            R.fail("links|%s|%s" % (kind, '+'.join(kinds)), "history %r: after step %d: %s" % (list(seq[:i + 1]), i, detail),
                   "from bounded.c03_links import run_history\nr = run_history(%r)\nprint(r)\nsys.exit(1 if r else 0)\n" % (list(seq[:i + 1]),))
    for n in range(1, L + 1):
        for seq in itertools.product(ops, repeat=n):
            if seq[0][0] != 'link' and n > 1:
                continue
            one(seq)
    for _ in range(300 if tier == 'quick' else 4000):
        n = rng.randint(5, 8)
        seq = [rng.choice(LINK_OPS) for _ in range(2)] + [rng.choice(ops) for _ in range(n - 2)]
        if rng.random() < 0.3:
            k = rng.randint(1, len(seq) - 1)
            seq = seq[:k] + [('delayed', tuple(seq[k:k + 3]))] + seq[k + 3:]
        one(tuple(seq))
    # star of links on one attribute, then remove that attribute (adjacent links must all go)
    for n_star in (2, 3):
        seq = [('link', ('b1',), t, False) for t in ('a1', 'c1', 'e1')[:n_star]] + [('rmcomp', 'b1')]
        one(tuple(seq))
        seq = [('link', ('a1',), 'b1', True), ('link', ('b1',), 'c1', True), ('link', ('c1',), 'a2', False), ('rmdata', 'B')]
        one(tuple(seq))
    R.samples.append({"history": "link a1<->b1, link b1->c1, link (a1,b1)->c2, rmcomp b1, adddata E -> access/values/masks/dangling checked after each"})
