"""C14 bounded stand-in: derived attributes evaluate, on the whole dataset and on every view of the catalogue, to their
defining expression applied element-wise to the current values of the inputs (NaN-aware), whatever the broadcasting
structure of the inputs; removal closure and identifier replacement histories."""
import itertools
import operator
import random

import numpy as np

OPS = {'+': operator.add, '-': operator.sub, '*': operator.mul, '/': operator.truediv, '**': operator.pow}


def mk_data():
    from glue.core import Data
    from glue.core.coordinates import AffineCoordinates
    a = np.array([[1., 2., 0.], [4., -1., 0.5]])
    b = np.array([[2, 0, 1], [3, 2, 1]])
    m = np.array([[2., 0., 1.], [0., 3., -1.], [0., 0., 1.]])
    d = Data(a=a, b=b, label='d', coords=AffineCoordinates(m))
    d['c'] = d.id['a'] + d.id['b']
    return d


def leaves(d):
    """name -> (glue operand, numpy value)"""
    out = {}
    for n in ('a', 'b', 'c'):
        out[n] = (d.id[n], np.asarray(d[d.id[n]]))
    out['p0'] = (d.pixel_component_ids[0], np.asarray(d[d.pixel_component_ids[0]]))
    out['p1'] = (d.pixel_component_ids[1], np.asarray(d[d.pixel_component_ids[1]]))
    out['w0'] = (d.world_component_ids[0], np.asarray(d[d.world_component_ids[0]], dtype=float))
    out['w1'] = (d.world_component_ids[1], np.asarray(d[d.world_component_ids[1]], dtype=float))
    for k in (2, 0.5, -1):
        out[repr(k)] = (k, k)
    return out


def build(spec, lv):
    """spec: leaf name or (op, left, right). returns (glue expression, numpy value)"""
    if isinstance(spec, str):
        return lv[spec]
    op, l, r = spec
    gl, nl = build(l, lv)
    gr, nr = build(r, lv)
    with np.errstate(all='ignore'):
        try:
            nv = OPS[op](np.asarray(nl), np.asarray(nr))
        except (ValueError, ZeroDivisionError) as e:      # numpy itself refuses (e.g. integers to negative integer powers)
            raise NumpyRefuses(str(e))
    ge = OPS[op](gl, gr)
    if isinstance(ge, complex):
        # two plain Python numbers, e.g. (-1) ** 0.5: Python itself answers with a complex number before glue is involved
        raise NumpyRefuses("complex constant")
    return ge, nv


class NumpyRefuses(Exception):
    pass


def is_const(spec):
    if isinstance(spec, str):
        return spec[0] in '-0123456789'
    return is_const(spec[1]) and is_const(spec[2])


def same(a, b):
    a, b = np.asarray(a, dtype=float), np.asarray(b, dtype=float)
    if a.shape != b.shape:
        return False
    with np.errstate(all='ignore'):
        # where the expression is singular (0/0, 0*inf, ...) rounding differences of an ulp between the full and the viewed evaluation
        # of a world coordinate decide between nan and +-inf: any two non-finite values are taken as agreeing
        return bool(np.all((a == b) | (~np.isfinite(a) & ~np.isfinite(b)) | (np.abs(a - b) <= 1e-9 * (1 + np.abs(b)))))


def check_expr(spec, views):
    d = mk_data()
    lv = leaves(d)
    if is_const(spec):
        return None
    try:
        expr, ref = build(spec, lv)
    except NumpyRefuses:
        return None
    from glue.core.component_link import ComponentLink
    if not isinstance(expr, ComponentLink):
        return None
    with np.errstate(all='ignore'):
        d['t'] = expr
        cid = d.id['t']
        try:
            full = np.asarray(d[cid])
        except Exception as e:
            return ('exception:%s' % type(e).__name__, "evaluating %r raised %s: %s" % (spec, type(e).__name__, e))
        ref = np.broadcast_to(np.asarray(ref, dtype=float), d.shape)
        if not same(full, ref):
            return ('values', "%r evaluates to %s, the expression on the inputs gives %s" % (spec, full.tolist(), ref.tolist()))
        for v in views:
            try:
                exp = ref if v is None else ref[v]
            except IndexError:
                continue
            if np.size(exp) == 0:
                continue            # empty views of coordinate attributes belong to C04/C15
            try:
                got = np.asarray(d[cid, v])
            except Exception as e:
                return ('view-exception:%s' % type(e).__name__, "%r with view %r raised %s: %s" % (spec, v, type(e).__name__, e))
            if not same(got, exp):
                return ('view-values', "%r with view %r gives %s (shape %r), the full result indexed by the view %s (shape %r)"
                        % (spec, v, np.asarray(got).tolist(), np.shape(got), exp.tolist(), exp.shape))
    return None


def user_functions(R, views):
    """ComponentLink with user functions returning ravelled, 0-d, scalar results; inputs with different broadcasting structure"""
    from glue.core.component_link import ComponentLink
    from glue.core.component_id import ComponentID
    fns = {
        'sum': (lambda x, y: x + y, lambda x, y: x + y),
        'ravel': (lambda x, y: (x * y).ravel(), lambda x, y: x * y),
        'scalar': (lambda x, y: 7.0, lambda x, y: np.full(np.broadcast(x, y).shape, 7.0)),
        'zero-d': (lambda x, y: np.array(3.5), lambda x, y: np.full(np.broadcast(x, y).shape, 3.5)),
        'first-only': (lambda x, y: x * 2, lambda x, y: x * 2 + 0 * y),
    }
    inputs = [('a', 'b'), ('p0', 'p1'), ('a', 'p1'), ('w0', 'a'), ('p0', 'p0'), ('c', 'w1')]
    for (fname, (fn, reffn)), (i1, i2) in itertools.product(fns.items(), inputs):
        d = mk_data()
        lv = leaves(d)
        link = ComponentLink([lv[i1][0], lv[i2][0]], ComponentID('t'), using=fn)
        d.add_component_link(link)
        cid = link.get_to_id()
        ref = np.broadcast_to(np.asarray(reffn(lv[i1][1], lv[i2][1]), dtype=float), d.shape)
        bad = None
        try:
            full = np.asarray(d[cid])
            if not same(full, ref):
                bad = ('values', "gives %s, expected %s" % (full.tolist(), ref.tolist()))
            else:
                for v in views:
                    try:
                        exp = ref if v is None else ref[v]
                    except IndexError:
                        continue
                    got = np.asarray(d[cid, v])
                    if not same(got, exp):
                        bad = ('view-values', "with view %r gives %s (shape %r), expected %s" % (v, got.tolist(), got.shape, exp.tolist()))
                        break
        except Exception as e:
            bad = ('exception:%s' % type(e).__name__, "raised %s: %s" % (type(e).__name__, e))
        R.count(('userfn', fname, i1, i2), 'user-function-links')
        if bad:
            R.fail("derived|userfn-%s|%s" % (fname, bad[0]), "link with user function %s on (%s, %s): %s" % (fname, i1, i2, bad[1]), None)


def parsed_commands(R, views):
    from glue.core.parse import ParsedCommand, ParsedComponentLink
    from glue.core.component_id import ComponentID
    cmds = [("{a} + {b}", lambda v: v['a'] + v['b']), ("{a} * 2 - {c}", lambda v: v['a'] * 2 - v['c']), ("np.abs({a}) ** 0.5", lambda v: np.abs(v['a']) ** 0.5),
            ("{p0} + {p1} * 10", lambda v: v['p0'] + v['p1'] * 10), ("({a} > 1) * {b}", lambda v: (v['a'] > 1) * v['b']),
            ("3.5", lambda v: np.full((2, 3), 3.5)), ("2 * 4", lambda v: np.full((2, 3), 8.0)), ("{w0} / 2", lambda v: v['w0'] / 2),
            ("{a} + {a}", lambda v: v['a'] * 2)]
    for cmd, reffn in cmds:
        d = mk_data()
        lv = leaves(d)
        refs = {k: lv[k][0] for k in ('a', 'b', 'c', 'p0', 'p1', 'w0')}
        vals = {k: lv[k][1] for k in refs}
        bad = None
        try:
            pc = ParsedCommand(cmd, refs)
            link = ParsedComponentLink(ComponentID('t'), pc)
            d.add_component_link(link)
            cid = link.get_to_id()
            with np.errstate(all='ignore'):
                ref = np.broadcast_to(np.asarray(reffn(vals), dtype=float), d.shape)
                full = np.asarray(d[cid])
                if not same(full, ref):
                    bad = ('values', "gives %s, expected %s" % (full.tolist(), ref.tolist()))
                else:
                    for v in views:
                        try:
                            exp = ref if v is None else ref[v]
                        except IndexError:
                            continue
                        if np.size(exp) == 0:
                            continue
                        got = np.asarray(d[cid, v])
                        if not same(got, exp):
                            bad = ('view-values', "with view %r gives shape %r, the full result indexed by the view has shape %r" % (v, got.shape, exp.shape)
                                   if got.shape != exp.shape else "with view %r gives %s, expected %s" % (v, got.tolist(), exp.tolist()))
                            break
        except Exception as e:
            bad = ('exception:%s' % type(e).__name__, "raised %s: %s" % (type(e).__name__, e))
        R.count(('parsed', cmd), 'parsed-commands')
        if bad:
            kind = 'constant' if '{' not in cmd else 'references'
            R.fail("derived|parsed-%s|%s" % (kind, bad[0]), "parsed expression %r: %s" % (cmd, bad[1]),
                   "import numpy as np\nfrom bounded.c14_derived import replay_parsed\nsys.exit(replay_parsed(%r))\n" % cmd)


def replay_parsed(cmd):
    from vcheck.runner import BoundedResult
    from bounded.views import view_catalogue
    R = BoundedResult()
    views = view_catalogue((2, 3), random.Random(0), small=True)
    import bounded.c14_derived as me
    d = mk_data()
    from glue.core.parse import ParsedCommand, ParsedComponentLink
    from glue.core.component_id import ComponentID
    lv = leaves(d)
    refs = {k: lv[k][0] for k in ('a', 'b', 'c', 'p0', 'p1', 'w0')}
    link = ParsedComponentLink(ComponentID('t'), ParsedCommand(cmd, refs))
    d.add_component_link(link)
    full = np.asarray(d[link.get_to_id()])
    for v in views:
        try:
            exp = full if v is None else full[v]
        except IndexError:
            continue
        got = np.asarray(d[link.get_to_id(), v])
        if got.shape != exp.shape or not same(got, exp):
            print(v, got.shape, exp.shape)
            return 1
    return 0


def removal_histories(R, rng, tier):
    """remove an attribute: exactly its transitive dependents go; update_id keeps values and order"""
    from glue.core.component_id import ComponentID
    # dependency shapes: list of (name, expression over earlier names)
    shapes = [
        [('d1', ('+', 'a', 'b')), ('d2', ('*', 'd1', '2')), ('d3', ('-', 'b', '2'))],
        [('d1', ('*', 'a', '2')), ('d2', ('+', 'd1', 'd1')), ('d3', ('/', 'd2', 'b')), ('d4', ('+', 'a', 'p0'))],
        [('d1', ('+', 'p0', 'p1')), ('d2', ('+', 'd1', 'a')), ('d3', ('**', 'b', '2'))],
    ]
    for si, shape in enumerate(shapes):
        names = ['a', 'b'] + [n for n, _ in shape]
        for victim in names:
            for pre in (None, 'update_id', 'reversed-order'):
                d = mk_data()
                d.remove_component(d.id['c'])
                lv = leaves(mk_data())
                env = {'a': d.id['a'], 'b': d.id['b'], 'p0': d.pixel_component_ids[0], 'p1': d.pixel_component_ids[1], '2': 2}
                deps = {}
                for n, (op, l, r) in shape:
                    d[n] = OPS[op](env[l], env[r])
                    env[n] = d.id[n]
                    deps[n] = {x for x in (l, r) if x in names}
                if pre == 'reversed-order':
                    # dependents listed before the attributes they are computed from
                    d.reorder_components(list(d.components)[::-1])
                values_before = {c.label: np.asarray(d[c], dtype=float).copy() for c in d.components}
                order_before = [c.label for c in d.components]
                if pre == 'update_id' and victim in ('a', 'b'):
                    new = ComponentID(victim + '_new')
                    d.update_id(env[victim], new)
                    env[victim] = new
                    bad = None
                    for c in d.components:
                        key = c.label.replace('_new', '')
                        try:
                            if not same(np.asarray(d[c], dtype=float), values_before[key]):
                                bad = "after update_id the values of %s changed" % c.label
                        except Exception as e:
                            bad = "after update_id reading %s raises %s" % (c.label, type(e).__name__)
                    if [c.label.replace('_new', '') for c in d.components] != order_before:
                        bad = "update_id changed the order: %s" % [c.label for c in d.components]
                    R.count(('update_id', si, victim), 'update-id-histories')
                    if bad:
                        R.fail("derived|update_id|%s" % bad.split(' ')[2], "dependency shape %d: %s" % (si, bad), None)
                        continue
                gone = {victim}
                changed = True
                while changed:
                    changed = False
                    for n in deps:
                        if n not in gone and deps[n] & gone:
                            gone.add(n)
                            changed = True
                d.remove_component(env[victim])
                left = [c.label.replace('_new', '') for c in d.main_components + d.derived_components]
                expect = [n for n in names if n not in gone]
                R.count(('remove', si, victim, pre), 'removal-histories')
                if sorted(left) != sorted(expect):
                    R.fail("derived|removal-closure", "dependency shape %d: removing %s leaves %s, expected %s (dependents %s)"
                           % (si, victim, left, expect, sorted(gone - {victim})), None)
                else:
                    for c in d.derived_components:
                        try:
                            np.asarray(d[c])
                        except Exception as e:
                            R.fail("derived|survivor-unreadable", "after removing %s the surviving derived attribute %s raises %s" % (victim, c.label, type(e).__name__), None)


def shared_expressions(R):
    """the same expression object used as an attribute of its own and inside larger expressions"""
    for variant in ('left', 'right', 'both'):
        d = mk_data()
        d.remove_component(d.id['c'])
        x, y = d.id['a'], d.id['b']
        e = x + 1
        d['s'] = e
        if variant == 'left':
            d['t'] = e * y
        elif variant == 'right':
            d['t'] = y * e
        else:
            d['t'] = e * (e + y)
        d['u'] = d.id['s'] - 2
        before = {c.label: np.asarray(d[c], dtype=float).copy() for c in d.components}
        d.remove_component(y)
        left = sorted(c.label for c in d.derived_components)
        R.count(('shared', variant), 'shared-expression-objects')
        if left != ['s', 'u']:
            R.fail("derived|removal-closure|shared-expression-%s" % variant,
                   "s = x+1 also used inside t (%s operand): removing y leaves derived attributes %s, expected ['s', 'u'] (only t depends on y)" % (variant, left),
                   "from bounded.c14_derived import replay_shared\nsys.exit(replay_shared(%r))\n" % variant)
            continue
        for c in d.derived_components:
            if not same(np.asarray(d[c], dtype=float), before[c.label]):
                R.fail("derived|values-after-removal", "values of %s changed after removing an unrelated attribute" % c.label, None)


def registration_names(R):
    """what an attribute depends on is decided by the name it is registered under, not by the target the link object itself carries: one
    expression registered under two names, a derived component registered under a name of its own, a link whose target is a stored attribute"""
    from glue.core.component import DerivedComponent
    from glue.core.component_link import ComponentLink
    from glue.core.component_id import ComponentID

    def two_names(d):
        e = d.id['a'] * 2
        d['twice'] = e
        d['double'] = e
        d['more'] = d.id['twice'] + 1
        return {'twice', 'double', 'more'}, set()

    def own_name(d):
        d.add_component(DerivedComponent(d, d.id['a'] + 1), 'named')
        return {'named'}, set()

    def stored_target(d):
        d.add_component(DerivedComponent(d, ComponentLink([d.id['a']], d.id['b'], using=lambda x: x * 3)), 'through-b')
        return {'through-b'}, {'b'}
    for vname, mk in (('one-expression-two-names', two_names), ('own-name', own_name), ('link-targets-stored-attribute', stored_target)):
        d = mk_data()
        d.remove_component(d.id['c'])
        try:
            gone, kept = mk(d)
        except Exception:
            continue
        d.remove_component(d.id['a'])
        labels = [c.label for c in d.components]
        R.count(('registration', vname), 'removal-histories')
        bad = sorted(l for l in gone if l in labels) + sorted('missing ' + l for l in kept if l not in labels)
        if bad:
            R.fail("derived|removal-closure|%s" % vname, "attributes derived from a (%s): after removing a the dataset still lists / lost %s (attributes now: %s)" % (vname, bad, labels), None)
            continue
        for c in d.derived_components:
            try:
                np.asarray(d[c])
            except Exception as e:
                R.fail("derived|survivor-unreadable|%s" % vname, "after removing a the surviving derived attribute %s raises %s" % (c.label, type(e).__name__), None)


def replay_shared(variant):
    d = mk_data()
    d.remove_component(d.id['c'])
    x, y = d.id['a'], d.id['b']
    e = x + 1
    d['s'] = e
    d['t'] = e * y if variant == 'left' else (y * e if variant == 'right' else e * (e + y))
    d['u'] = d.id['s'] - 2
    d.remove_component(y)
    left = sorted(c.label for c in d.derived_components)
    print(left)
    return 0 if left == ['s', 'u'] else 1


def nested_parsed(R, views):
    """a parsed expression over another parsed derived attribute, in both tag orders"""
    from glue.core.parse import ParsedCommand, ParsedComponentLink
    from glue.core.component_id import ComponentID
    for cmd, reffn in (("{inner} + {b}", lambda v: v['a'] * 2 + v['b']), ("{b} + {inner}", lambda v: v['b'] + v['a'] * 2),
                       ("{inner} * {inner} - {a}", lambda v: (v['a'] * 2) ** 2 - v['a']), ("{inner2} / ({b} + 1)", lambda v: (v['a'] * 2 + 1) / (v['b'] + 1))):
        d = mk_data()
        lv = leaves(d)
        vals = {k: np.asarray(lv[k][1], dtype=float) for k in ('a', 'b')}
        inner = ParsedComponentLink(ComponentID('inner'), ParsedCommand("{a} * 2", {'a': lv['a'][0]}))
        d.add_component_link(inner)
        inner2 = ParsedComponentLink(ComponentID('inner2'), ParsedCommand("{inner} + 1", {'inner': inner.get_to_id()}))
        d.add_component_link(inner2)
        refs = {'a': lv['a'][0], 'b': lv['b'][0], 'inner': inner.get_to_id(), 'inner2': inner2.get_to_id()}
        link = ParsedComponentLink(ComponentID('t'), ParsedCommand(cmd, refs))
        d.add_component_link(link)
        cid = link.get_to_id()
        bad = None
        try:
            with np.errstate(all='ignore'):
                ref = np.broadcast_to(np.asarray(reffn(vals), dtype=float), d.shape)
                if not same(np.asarray(d[cid]), ref):
                    bad = ('values', "gives %s, expected %s" % (np.asarray(d[cid]).tolist(), ref.tolist()))
                else:
                    for v in views:
                        try:
                            exp = ref if v is None else ref[v]
                        except IndexError:
                            continue
                        if np.size(exp) == 0:
                            continue
                        got = np.asarray(d[cid, v])
                        if not same(got, exp):
                            bad = ('view-values', "with view %r gives %s (shape %r), the full result indexed by the view is %s" % (v, got.tolist(), got.shape, exp.tolist()))
                            break
        except Exception as e:
            bad = ('exception:%s' % type(e).__name__, "raised %s: %s" % (type(e).__name__, e))
        R.count(('nested-parsed', cmd), 'parsed-commands')
        if bad:
            R.fail("derived|parsed-nested|%s" % bad[0], "parsed expression %r over a parsed derived attribute: %s" % (cmd, bad[1]), None)


def update_id_kinds(R):
    """replacing the identifier of an attribute keeps every kind of derived attribute that reads it evaluable with the same values"""
    from glue.core.component_id import ComponentID
    from glue.core.component_link import ComponentLink
    from glue.core.parse import ParsedCommand, ParsedComponentLink

    def arithmetic(d):
        d['z'] = d.id['a'] * 2 + d.id['b']

    def function(d):
        d.add_component_link(ComponentLink([d.id['a'], d.id['b']], ComponentID('z'), using=lambda a, b: a * 2 + b))

    def parsed(d):
        d.add_component_link(ParsedComponentLink(ComponentID('z'), ParsedCommand('{a} * 2 + {b}', {'a': d.id['a'], 'b': d.id['b']})))

    def parsed_nested(d):
        d.add_component_link(ParsedComponentLink(ComponentID('w'), ParsedCommand('{a} * 2', {'a': d.id['a']})))
        d.add_component_link(ParsedComponentLink(ComponentID('z'), ParsedCommand('{w} + {b}', {'w': d.id['w'], 'b': d.id['b']})))

    def same_operand_twice(d):
        d['w'] = d.id['a'] * d.id['a']
        d['z'] = d.id['b'] + (d.id['a'] ** d.id['a']) / 2 + d.id['w']

    def arithmetic_nested(d):
        d['w'] = d.id['a'] * 2
        d['z'] = d.id['w'] + d.id['b']
    for kname, mk in (('arithmetic', arithmetic), ('function', function), ('parsed', parsed), ('parsed-nested', parsed_nested), ('arithmetic-nested', arithmetic_nested), ('same-operand-twice', same_operand_twice)):
        for victim in ('a', 'b'):
            d = mk_data()
            mk(d)
            before = np.asarray(d[d.id['z']], dtype=float).copy()
            d.update_id(d.id[victim], ComponentID(victim + '_renamed'))
            R.count(('update-id-kind', kname, victim), 'update-id-histories')
            try:
                after = np.asarray(d[d.id['z']], dtype=float)
                bad = None if same(after, before) else "gives other values"
            except Exception as e:
                bad = "raises %s: %s" % (type(e).__name__, e)
            if bad:
                R.fail("derived|update_id-kind|%s" % kname, "derived attribute z (%s link reading a and b): after update_id of %s reading z %s" % (kname, victim, bad),
                       "from bounded.c14_derived import replay_update_id_kinds\nsys.exit(replay_update_id_kinds())\n")


def replay_update_id_kinds():
    class _R:
        bad = 0

        def count(self, *a):
            pass

        def fail(self, sig, detail, code):
            print(sig, detail)
            self.bad += 1
    r = _R()
    update_id_kinds(r)
    return 1 if r.bad else 0


def run(tier, seed, R):
    from bounded.views import view_catalogue
    rng = random.Random(seed)
    views = view_catalogue((2, 3), rng, small=True)
    R.rule = ("2-d dataset with affine coordinates: ALL arithmetic expression trees of depth 1 over {+,-,*,/,**} x 10 operands (stored float/int, derived, pixel, world, constants), "
              "seeded random trees of depth 2-3, each evaluated on the whole dataset and on every view of the catalogue (%d views) against numpy on the materialised inputs (NaN-aware); "
              "links with user functions returning full/ravelled/scalar/0-d results on inputs of different broadcasting structure; parsed text expressions (with and without references); "
              "removal closure and identifier replacement on 3 dependency shapes. non-trivial = distinct expression/function/history that is not constant" % len(views))
    R.exhaustive = True
    names = list(leaves(mk_data()))
    specs = [(op, l, r) for op in OPS for l in names for r in names]
    for _ in range(250 if tier == 'quick' else 3000):
        def rnd(depth):
            if depth == 0 or rng.random() < 0.3:
                return rng.choice(names)
            return (rng.choice(list(OPS)), rnd(depth - 1), rnd(depth - 1))
        specs.append(rnd(rng.randint(2, 3)))
    for spec in specs:
        r = check_expr(spec, views)
        R.count(('expr', repr(spec)) if not is_const(spec) else None, 'expression-trees')
        if r is not None:
            kinds = set()

            def walk(s):
                if isinstance(s, str):
                    kinds.add('const' if s[0] in '-0123456789' else s.rstrip('01'))
                else:
                    kinds.add(s[0])
                    walk(s[1]), walk(s[2])
            walk(spec)
            R.fail("derived|expr|%s|%s" % (r[0], '+'.join(sorted(kinds))), r[1],
                   "from bounded.c14_derived import check_expr\nfrom bounded.views import view_catalogue\nimport random\n"
                   "r = check_expr(%r, view_catalogue((2, 3), random.Random(%d), small=True))\nprint(r)\nsys.exit(1 if r else 0)\n" % (spec, seed))
    user_functions(R, views)
    parsed_commands(R, views)
    nested_parsed(R, views)
    shared_expressions(R)
    removal_histories(R, rng, tier)
    update_id_kinds(R)
    registration_names(R)
    R.samples.append({"expression": "('/', ('+', 'a', 'p1'), ('**', 'w0', '0.5')) on the full dataset and on each view, vs numpy"})
