"""C05 bounded stand-in: evaluate -> mutate -> evaluate histories on real objects; after every mutation every requested
mask / statistic / histogram / derived value must equal what a freshly constructed, never evaluated copy returns.
Mutators are enumerated from the source (property setters of every SubsetState subclass, public mutators of every Roi class)."""
import inspect
import itertools
import random

import numpy as np


def mk_data():
    from glue.core import Data
    d = Data(x=[1., 2., 3., 4., 5., 6.], y=[6., 5., 4., 3., 2., 1.], label='d')
    d.add_component(np.array(['a', 'b', 'a', 'c', 'b', 'a']), 'cat')
    d.add_component(np.array(['u', 'u', 'v', 'v', 'w', 'w']), 'cat2')
    return d


def samples(d):
    """class name -> (factory, {attribute: alternative value})"""
    from glue.core import subset as S
    from glue.core import roi as R
    import operator as op
    cx, cy, cc, cc2 = d.id['x'], d.id['y'], d.id['cat'], d.id['cat2']
    px = d.pixel_component_ids[0]
    out = {
        'RoiSubsetStateNd': (lambda: S.RoiSubsetStateNd([cx, cy], R.RectangularROI(0.5, 3.5, 0, 7)),
                             {'roi': R.RectangularROI(2.5, 6.5, 0, 7)}),
        'RoiSubsetState': (lambda: S.RoiSubsetState(cx, cy, R.RectangularROI(0.5, 3.5, 0, 7)),
                           {'roi': R.RectangularROI(2.5, 6.5, 0, 7), 'xatt': cy, 'yatt': cx}),
        'CategoricalROISubsetState': (lambda: S.CategoricalROISubsetState(cc, R.CategoricalROI(['a'])),
                                      {'roi': R.CategoricalROI(['b', 'c']), 'att': cc2}),
        'RangeSubsetState': (lambda: S.RangeSubsetState(2, 4, cx), {'lo': 3.5, 'hi': 5.5, 'att': cy}),
        'MultiRangeSubsetState': (lambda: S.MultiRangeSubsetState([(1, 2)], cx), {'pairs': [(4, 6)], 'att': cy}),
        'CategoricalROISubsetState2D': (lambda: S.CategoricalROISubsetState2D({'a': ['u'], 'b': ['u', 'w']}, cc, cc2),
                                        {'categories': {'a': ['v', 'w']}, 'att1': cc2, 'att2': cc}),
        'CategoricalMultiRangeSubsetState': (lambda: S.CategoricalMultiRangeSubsetState({'a': [(0, 2)], 'b': [(4, 6)]}, cc, cx),
                                             {'ranges': {'a': [(2.5, 7)]}, 'num_att': cy, 'cat_att': cc2}),
        'MaskSubsetState': (lambda: S.MaskSubsetState(np.array([1, 0, 1, 0, 0, 0], bool), d.pixel_component_ids),
                            {'mask': np.array([0, 0, 0, 1, 1, 0], bool)}),
        'SliceSubsetState': (lambda: S.SliceSubsetState(d, [slice(0, 3)]), {'slices': [slice(2, 6)]}),
        'CategorySubsetState': (lambda: S.CategorySubsetState(cc, [0]), {'categories': np.array([1, 2]), 'att': cc2}),
        'ElementSubsetState': (lambda: S.ElementSubsetState([0, 1]), {'indices': [3, 4, 5]}),
        'InequalitySubsetState': (lambda: cx > 3, {'right': 1.5, 'left': cy, 'operator': op.lt}),
        # values whose comparison with the old value is not an honest boolean: an attribute identifier compared with a number builds a selection
        # object (truthy); the very list the state already holds, edited in place and assigned again, equals itself
        'InequalitySubsetState#attribute-for-number': (lambda: cx > 3, {'right': cy}),
        'InequalitySubsetState#number-for-attribute': (lambda: S.InequalitySubsetState(cx, cy, op.gt), {'right': 2.5, 'left': 4.5}),
        'MultiRangeSubsetState#same-list-edited': (lambda: S.MultiRangeSubsetState([(1, 2)], cx), {'pairs': InPlace(lambda st: (st.pairs.append((4, 6)), st.pairs)[1])}),
        'ElementSubsetState#same-list-edited': (lambda: S.ElementSubsetState([0, 1]), {'indices': InPlace(lambda st: (st.indices.append(4), st.indices)[1])}),
    }
    return out


class InPlace:
    """alternative value = the object the state already holds, edited in place (computed from the state at assignment time)"""

    def __init__(self, f):
        self.f = f


def roi_mutators():
    """(roi factory, [(mutator name, args)])"""
    from glue.core import roi as R
    return [
        ('RectangularROI', lambda: R.RectangularROI(0.5, 3.5, 0, 7), [('move_to', (5, 3.5)), ('update_limits', (2.5, 0, 6.5, 7)), ('rotate_to', (0.7,)), ('reset', ())]),
        ('CircularROI', lambda: R.CircularROI(2, 5, 1.6), [('move_to', (5, 2)), ('set_radius', (0.3,)), ('set_center', (5, 2)), ('reset', ())]),
        ('EllipticalROI', lambda: R.EllipticalROI(2, 5, 1.6, 0.8), [('move_to', (5, 2)), ('rotate_to', (1.0,)), ('reset', ())]),
        ('PolygonalROI', lambda: R.PolygonalROI([0.5, 3.5, 3.5, 0.5], [0, 0, 7, 7]), [('move_to', (5, 3.5)), ('add_point', (9, 3)), ('reset', ())]),
        ('CircularAnnulusROI', lambda: R.CircularAnnulusROI(2, 5, 0.5, 2.0), [('move_to', (5, 2)), ('reset', ())]),
    ]


def eq(a, b):
    a, b = np.asarray(a), np.asarray(b)
    return a.shape == b.shape and bool(np.array_equal(a, b))


def safe_mask(state, d):
    from glue.core.exceptions import IncompatibleAttribute
    try:
        return np.asarray(state.to_mask(d)).copy()
    except IncompatibleAttribute:
        return 'incompatible'
    except Exception as e:         # e.g. a stale cached mask of the wrong shape meeting a fresh one
        return 'error:%s' % type(e).__name__


def same(a, b):
    if isinstance(a, str) or isinstance(b, str):
        return isinstance(a, str) and isinstance(b, str) and a == b
    return eq(a, b)


WRAPS = {
    'top': lambda s, o: s,
    'and': lambda s, o: s & o,
    'not': lambda s, o: ~s,
    'multi': None,
    'deep': lambda s, o: (o | (s ^ o)) & o,
}


def inner_of(wrap, comp):
    """the copy of the sample leaf that lives inside the composite"""
    if wrap == 'top':
        return comp
    if wrap in ('and', 'not'):
        return comp.state1
    if wrap == 'multi':
        return comp.states[0]
    if wrap == 'deep':
        return comp.state1.state2.state1
    raise ValueError(wrap)


def build(wrap, s, other):
    from glue.core.subset import MultiOrState
    if wrap == 'multi':
        return MultiOrState([s.copy(), other])
    return WRAPS[wrap](s, other)


def setter_histories(R, tier):
    """evaluate, set an attribute of a selection (top level or nested in a composite), evaluate again"""
    from glue.core import subset as S
    d = mk_data()
    sm = samples(d)
    classes = [c for c in vars(S).values() if inspect.isclass(c) and issubclass(c, S.SubsetState)]
    seen_setters = set()
    for cls in classes:
        for name, prop in inspect.getmembers(cls, lambda m: isinstance(m, property)):
            if prop.fset is None:
                continue
            seen_setters.add((cls.__name__, name))
    covered = set()
    for cname, (factory, alts) in sm.items():
        for attr, alt in alts.items():
            covered.add((cname.split('#')[0], attr))
            for wrap in ('top', 'and', 'not', 'multi', 'deep'):
                d = mk_data()
                factory, alts2 = samples(d)[cname]
                alt = alts2[attr]
                other = d.id['y'] > 0.5
                comp = build(wrap, factory(), other)
                m0 = safe_mask(comp, d)
                inner = inner_of(wrap, comp)
                try:
                    setattr(inner, attr, alt.f(inner) if isinstance(alt, InPlace) else alt)
                except Exception as e:
                    R.count(None, 'setter-histories')
                    continue
                m1 = safe_mask(comp, d)
                fresh = safe_mask(rebuild_fresh(comp), d)
                R.count((cname, attr, wrap) if not same(m0, fresh) else None, 'setter-histories')
                if not same(m1, fresh):
                    R.fail("stale|setter|%s.%s|%s" % (cname.replace('#', ':'), attr, 'top-level' if wrap == 'top' else 'nested'),
                           "%s.%s = ... on a selection %s: the mask stays %s, a fresh copy gives %s"
                           % (cname, attr, 'evaluated before' if wrap == 'top' else 'nested (%s) in an evaluated composite' % wrap,
                              fmt(m1), fmt(fresh)),
                           "from bounded.c05_cache import replay_setter\nsys.exit(replay_setter(%r, %r, %r))\n" % (cname, attr, wrap))
    missing = sorted(seen_setters - covered - {(c, a) for c, a in seen_setters if c in ('FloodFillSubsetState', 'RoiSubsetState3d', 'AndState', 'OrState', 'XorState', 'InvertState', 'CompositeSubsetState', 'MultiOrState', 'SubsetState')})
    inherited = {(c, a) for (c, a) in missing if any((b.__name__, a) in covered for b in getattr(S, c).__mro__[1:])}
    R.notes.append("setters found by introspection without a history here: %s" % sorted(set(missing) - inherited))


def fmt(m):
    return m if isinstance(m, str) else np.asarray(m).astype(int).ravel().tolist()


def rebuild_fresh(state):
    """a freshly constructed, never evaluated copy (copy() builds new objects down the tree)"""
    return state.copy()


def replay_setter(cname, attr, wrap):
    d = mk_data()
    factory, alts = samples(d)[cname]
    other = d.id['y'] > 0.5
    comp = build(wrap, factory(), other)
    safe_mask(comp, d)
    inner = inner_of(wrap, comp)
    setattr(inner, attr, alts[attr].f(inner) if isinstance(alts[attr], InPlace) else alts[attr])
    m1, fresh = safe_mask(comp, d), safe_mask(rebuild_fresh(comp), d)
    print(fmt(m1), fmt(fresh))
    return 0 if same(m1, fresh) else 1


def roi_histories(R, tier):
    from glue.core import subset as S
    for rname, rf, muts in roi_mutators():
        for mname, args in muts:
            for wrap in ('top', 'and', 'not', 'multi', 'deep'):
                d = mk_data()
                roi = rf()
                if not hasattr(roi, mname):
                    continue
                s = S.RoiSubsetState(d.id['x'], d.id['y'], roi)
                other = d.id['y'] > 0.5
                comp = build(wrap, s, other)
                m0 = safe_mask(comp, d)
                try:
                    getattr(inner_of(wrap, comp).roi, mname)(*args)
                except Exception as e:
                    R.count(None, 'roi-histories')
                    continue
                try:
                    m1 = safe_mask(comp, d)
                    fresh = safe_mask(rebuild_fresh(comp), d)
                except Exception as e:       # e.g. an undefined ROI after reset()
                    R.count(None, 'roi-histories')
                    continue
                R.count((rname, mname, wrap) if not same(m0, fresh) else None, 'roi-histories')
                if not same(m1, fresh):
                    R.fail("stale|roi-mutator|%s.%s|%s" % (rname, mname, 'top-level' if wrap == 'top' else 'nested'),
                           "%s.%s%r on the region of a selection nested (%s) in an evaluated composite: the mask stays %s, a fresh copy gives %s"
                           % (rname, mname, args, wrap, fmt(m1), fmt(fresh)),
                           "from bounded.c05_cache import replay_roi\nsys.exit(replay_roi(%r, %r, %r))\n" % (rname, mname, wrap))


def replay_roi(rname, mname, wrap):
    from glue.core import subset as S
    d = mk_data()
    rf, muts = [(f, m) for n, f, m in roi_mutators() if n == rname][0]
    args = dict(muts)[mname]
    comp = build(wrap, S.RoiSubsetState(d.id['x'], d.id['y'], rf()), d.id['y'] > 0.5)
    safe_mask(comp, d)
    getattr(inner_of(wrap, comp).roi, mname)(*args)
    m1, fresh = safe_mask(comp, d), safe_mask(rebuild_fresh(comp), d)
    print(fmt(m1), fmt(fresh))
    return 0 if same(m1, fresh) else 1


# ------------------------------------------------------------------------------------------------ data / link / move histories
def state_pool(d):
    from glue.core import subset as S
    from glue.core import roi as R
    cx, cy = d.id['x'], d.id['y']
    leaves = [('gt', lambda: cx > 2.5), ('range', lambda: S.RangeSubsetState(1.5, 4.5, cy)),
              ('rect', lambda: S.RoiSubsetState(cx, cy, R.RectangularROI(0.5, 3.5, 0, 7))),
              ('cat', lambda: S.CategorySubsetState(d.id['cat'], [0, 1])), ('elem', lambda: S.ElementSubsetState([0, 5]))]
    pool = list(leaves)
    for (na, fa), (nb, fb) in itertools.product(leaves[:4], repeat=2):
        pool.append(('(%s&%s)' % (na, nb), lambda fa=fa, fb=fb: fa() & fb()))
    for (na, fa) in leaves[:4]:
        pool.append(('~%s' % na, lambda fa=fa: ~fa()))
        pool.append(('(~%s|(gt^range))' % na, lambda fa=fa: (~fa()) | (leaves[0][1]() ^ leaves[1][1]())))
        pool.append(('multi(%s,range)' % na, lambda fa=fa: S.MultiOrState([fa(), leaves[1][1]()])))
    return pool


def observe(d, state, cid_label='x'):
    """everything a client may request"""
    out = {'mask': fmt(safe_mask(state, d))}
    try:
        out['sum'] = float(d.compute_statistic('sum', d.id[cid_label], subset_state=state))
        out['hist'] = np.asarray(d.compute_histogram([d.id[cid_label]], range=[(0, 10)], bins=[5], subset_state=state)).tolist()
    except Exception as e:
        out['sum'] = 'error:' + type(e).__name__
    return out


MUTATIONS = ['update_components', 'update_components-2', 'update_values_same_shape', 'update_values_new_shape', 'move_to', 'noop-update', 'update_components-same-buffer', 'update_values_fewer_components']


def apply_mutation(d, state, mut, rng):
    from glue.core import Data
    n = d.shape[0]
    if mut == 'update_components':
        d.update_components({d.id['x']: np.array([6., 5., 4., 3., 2., 1.])[:n]})
    elif mut == 'update_components-2':
        d.update_components({d.id['y']: np.array([1., 1., 1., 9., 9., 9.])[:n], d.id['x']: np.array([3., 3., 3., 0., 0., 0.])[-n:]})
    elif mut == 'update_components-same-buffer':
        # the caller keeps the buffer it handed over, edits it in place and announces the change by passing it again
        buf = np.array(d['x'], dtype=float)
        d.update_components({d.id['x']: buf})
        buf[:] = buf[::-1] + 0.5
        d.update_components({d.id['x']: buf})
    elif mut == 'noop-update':
        try:
            d.update_components({d.id['x']: np.array([9., 8., 7., 6., 5., 4.])[:n], d.id['y']: np.array([1., 2.])})
        except ValueError:
            pass
    elif mut == 'update_values_same_shape':
        n = Data(x=[2., 2., 2., 5., 5., 5.], y=[1., 2., 3., 4., 5., 6.], label='d')
        n.add_component(np.array(['b', 'b', 'a', 'a', 'c', 'c']), 'cat')
        n.add_component(np.array(['u', 'v', 'w', 'u', 'v', 'w']), 'cat2')
        d.update_values_from_data(n)
    elif mut == 'update_values_fewer_components':
        # the new data lack one attribute (removed, and announced, before the values are replaced) and have another shape
        n = Data(x=[7., 1., 6., 2., 5.], y=[5., 4., 3., 2., 1.], label='d')
        n.add_component(np.array(['c', 'a', 'a', 'b', 'c']), 'cat')
        d.update_values_from_data(n)
    elif mut == 'update_values_new_shape':
        n = Data(x=[5., 4., 3., 2.], y=[1., 2., 3., 4.], label='d')
        n.add_component(np.array(['b', 'a', 'a', 'c']), 'cat')
        n.add_component(np.array(['u', 'v', 'w', 'u']), 'cat2')
        d.update_values_from_data(n)
    elif mut == 'move_to':
        # a valid move: as many coordinates as the selection's centre has
        try:
            cen = state.center()
        except Exception:
            cen = None
        if cen is None:
            return
        args = (float(cen) + 1.0,) if np.isscalar(cen) else (float(cen[0]) + 1.0, float(cen[1]) + 0.5)
        try:
            state.copy().move_to(*args)      # mixed 1-d/2-d composites cannot be moved: not a valid operation
        except TypeError:
            return
        state.move_to(*args)


def data_histories(R, tier, rng):
    L = 2 if tier == 'quick' else 3
    d0 = mk_data()
    names = [n for n, _ in state_pool(d0)]
    for si, sname in enumerate(names):
        seqs = list(itertools.product(MUTATIONS, repeat=1)) + list(itertools.product(MUTATIONS, repeat=2))
        if L >= 3:
            seqs += rng.sample(list(itertools.product(MUTATIONS, repeat=3)), 30)
        elif len(seqs) > 20 and si % 3:
            seqs = seqs[:6] + rng.sample(seqs[6:], 8)
        for seq in seqs:
            d = mk_data()
            state = dict(state_pool(d))[sname]()
            sub = d.new_subset()
            sub.subset_state = state
            state = sub.subset_state
            seen = []

            def listener_view():
                seen.append(fmt(safe_mask(state, d)))
            from glue.core.hub import Hub, HubListener
            from glue.core.message import NumericalDataChangedMessage
            hub = Hub()
            d.register_to_hub(hub)
            lst = HubListener()
            hub.subscribe(lst, NumericalDataChangedMessage, handler=lambda m: listener_view())
            # a second client looks at the selection inside every other notification of the dataset (attributes removed / added, ...):
            # what it sees there is not compared, but it must not leave anything behind that outlives the change
            from glue.core.message import DataRemoveComponentMessage, DataAddComponentMessage, ComponentsChangedMessage
            lst2 = HubListener()
            for mcls in (DataRemoveComponentMessage, DataAddComponentMessage, ComponentsChangedMessage):
                hub.subscribe(lst2, mcls, handler=lambda m: safe_mask(state, d))
            observe(d, state)
            bad = None
            for k, mut in enumerate(seq):
                del seen[:]
                apply_mutation(d, state, mut, rng)
                if 'new_shape' in mut and 'elem' in sname:
                    pass
                got = observe(d, state)
                fresh_state = rebuild_fresh(state)
                exp = observe(d, fresh_state)
                if got != exp:
                    key = next(kk for kk in exp if got.get(kk) != exp[kk])
                    bad = (k, mut, key, got[key], exp[key], 'after')
                    break
                if seen and seen[-1] != exp['mask']:
                    bad = (k, mut, 'mask', seen[-1], exp['mask'], 'inside-the-change-notification')
                    break
            nt = len(set(seq)) > 0
            R.count((sname, seq), 'data-histories')
            if bad:
                k, mut, key, g, e, when = bad
                kinds = 'composite' if any(ch in sname for ch in '&|~(') else 'leaf'
                R.fail("stale|%s|%s|%s|%s" % (mut, when, key, kinds),
                       "selection %s: evaluate, then %r: step %d (%s) the %s requested %s is %r, a fresh copy gives %r"
                       % (sname, list(seq), k, mut, key, when, g, e),
                       "from bounded.c05_cache import replay_data_history\nsys.exit(replay_data_history(%r, %r))\n" % (sname, list(seq)))


def replay_data_history(sname, seq):
    rng = random.Random(0)
    d = mk_data()
    state = dict(state_pool(d))[sname]()
    sub = d.new_subset()
    sub.subset_state = state
    state = sub.subset_state
    observe(d, state)
    for mut in seq:
        apply_mutation(d, state, mut, rng)
        got, exp = observe(d, state), observe(d, rebuild_fresh(state))
        if got != exp:
            print(mut, got, exp)
            return 1
    return 0


def link_histories(R, tier, rng):
    """derived values / masks read through links after links are added, removed or replaced"""
    from glue.core import Data, DataCollection
    from glue.core.component_link import ComponentLink
    from glue.core.link_helpers import LinkSame
    from glue.core.exceptions import IncompatibleAttribute

    def world():
        d1 = Data(x=[1., 2., 3.], label='d1')
        d2 = Data(a=[10., 20., 30.], label='d2')
        dc = DataCollection([d1, d2])
        return dc, d1, d2
    f1 = lambda a: a / 10.0
    f2 = lambda a: a / 5.0
    f1i = lambda x: x * 10.0
    f2i = lambda x: x * 5.0

    def expect(dc, d1, d2, active):
        """values of d1.x seen from d2 under the active link function"""
        if active is None:
            return 'incompatible'
        return active(np.asarray(d2['a']))
    ops = ['add-f1', 'add-f2', 'remove', 'set-f1', 'set-f2', 'set-none', 'replace-f1-by-f2', 'eval']
    L = 3 if tier == 'quick' else 4
    for seq in itertools.product(ops, repeat=L):
        if seq[0] not in ('add-f1', 'add-f2', 'set-f1'):
            continue
        dc, d1, d2 = world()
        cur = None       # (link object, function)
        state = d1.id['x'] > 1.5
        bad = None
        for k, o in enumerate(seq):
            try:
                if o.startswith('add-'):
                    if cur is not None:
                        dc.remove_link(cur[0])
                    fn, fi = (f1, f1i) if o.endswith('f1') else (f2, f2i)
                    link = ComponentLink([d2.id['a']], d1.id['x'], using=fn, inverse=fi)
                    dc.add_link(link)
                    cur = (link, fn)
                elif o == 'remove':
                    if cur is not None:
                        dc.remove_link(cur[0])
                        cur = None
                elif o.startswith('set-'):
                    if o == 'set-none':
                        dc.set_links([])
                        cur = None
                    else:
                        fn, fi = (f1, f1i) if o.endswith('f1') else (f2, f2i)
                        link = ComponentLink([d2.id['a']], d1.id['x'], using=fn, inverse=fi)
                        dc.set_links([link])
                        cur = (link, fn)
                elif o == 'replace-f1-by-f2':
                    link = ComponentLink([d2.id['a']], d1.id['x'], using=f2, inverse=f2i)
                    dc.set_links([link])
                    cur = (link, f2)
            except Exception as e:
                bad = (k, o, 'exception', '%s: %s' % (type(e).__name__, e), '')
                break
            exp = expect(dc, d1, d2, cur[1] if cur else None)
            try:
                got = np.asarray(d2[d1.id['x']])
            except IncompatibleAttribute:
                got = 'incompatible'
            gm = safe_mask(state, d2)
            em = 'incompatible' if isinstance(exp, str) else (exp > 1.5)
            if not same(got, exp):
                bad = (k, o, 'values', fmt2(got), fmt2(exp))
                break
            if not same(gm, em):
                bad = (k, o, 'mask', fmt(gm), fmt(em))
                break
        R.count(('links', seq), 'link-histories')
        if bad:
            k, o, what, g, e = bad
            R.fail("stale|link|%s|%s" % (o, what), "link history %r: after step %d (%s) the %s of d1.x read from d2 are %r, expected %r"
                   % (list(seq), k, o, what, g, e),
                   None)


def pixel_alignment_histories(R, tier, rng):
    """slice selections evaluated on a pixel-linked dataset while the pixel links are added, removed, swapped (axes permuted) in one
    update or in several; after every step the mask / statistic on the other dataset must equal what the *current* links imply"""
    from glue.core import Data, DataCollection
    from glue.core.link_helpers import LinkSame
    from glue.core.subset import SliceSubsetState
    from glue.core.exceptions import IncompatibleAttribute
    n = 3
    ops = ['straight', 'swapped', 'none', 'straight-one-update', 'swapped-one-update', 'straight-delayed', 'swapped-delayed']
    L = 3 if tier == 'quick' else 4
    for seq in itertools.product(ops, repeat=L):
        if seq[0] == 'none':
            continue
        d1 = Data(v=np.arange(n * n, dtype=float).reshape((n, n)), label='d1')
        d2 = Data(w=np.arange(n * n, dtype=float).reshape((n, n)) * 10, label='d2')
        dc = DataCollection([d1, d2])
        state = SliceSubsetState(d1, [slice(0, 1), slice(None)])          # first row of d1
        cur = []
        order = None
        bad = None
        for k, o in enumerate(seq):
            kind = o.split('-')[0]

            def links_for(kind):
                if kind == 'none':
                    return []
                pairs = [(0, 0), (1, 1)] if kind == 'straight' else [(0, 1), (1, 0)]
                return [LinkSame(d1.pixel_component_ids[a], d2.pixel_component_ids[b]) for a, b in pairs]
            new = links_for(kind)
            try:
                if o.endswith('one-update'):
                    dc.set_links(new)
                elif o.endswith('delayed'):
                    with dc.delay_link_manager_update():
                        for l in cur:
                            dc.remove_link(l)
                        for l in new:
                            dc.add_link(l)
                else:
                    for l in cur:
                        dc.remove_link(l)
                    for l in new:
                        dc.add_link(l)
            except Exception as e:
                bad = (k, o, 'exception', '%s: %s' % (type(e).__name__, e), '')
                break
            cur, order = new, (None if kind == 'none' else kind)
            exp = np.zeros((n, n), bool)
            if order == 'straight':
                exp[0, :] = True
            elif order == 'swapped':
                exp[:, 0] = True          # d1 axis 0 is d2 axis 1
            try:
                got = np.asarray(d2.get_mask(state))
            except IncompatibleAttribute:
                got = None
            if order is None:
                ok = got is None or not got.any()
            else:
                ok = got is not None and np.array_equal(got, exp)
            if ok and order is not None:
                try:
                    sm = d2.compute_statistic('sum', d2.id['w'], subset_state=state)
                    ok = bool(np.isclose(sm, float(np.asarray(d2['w'])[exp].sum())))
                    got = 'sum %r' % (sm,) if not ok else got
                except Exception as e:
                    ok, got = False, '%s: %s' % (type(e).__name__, e)
            if not ok:
                bad = (k, o, 'mask', fmt(got) if isinstance(got, np.ndarray) else got, fmt(exp))
                break
        R.count(('pixel-links', seq), 'pixel-alignment-histories')
        if bad:
            k, o, what, g, e = bad
            R.fail("stale|pixel-alignment|%s|%s" % (o, what), "pixel-link history %r: after step %d (%s) the first row of d1 selects %r in d2, the current links imply %r" % (list(seq), k, o, g, e), None)


def nested_move_histories(R, tier, rng):
    """a composite nested inside evaluated composites is moved directly (inner.move_to): every enclosing selection must follow"""
    from glue.core import subset as S
    from glue.core import roi as G
    d = mk_data()
    x, y = d.id['x'], d.id['y']

    def build():
        rect = S.RoiSubsetState(x, y, G.RectangularROI(0.5, 3.5, 0, 7))
        circ = S.RoiSubsetState(x, y, G.CircularROI(2, 5, 1.6))
        inner = rect | circ
        mid = inner & (d.id['x'] > -100)
        outer = ~mid ^ (d.id['y'] > 1e9)
        return inner, mid, outer
    targets = [(5.0, 3.5), (1.0, 1.0), (6.5, 6.5)]
    for which in ('inner-of-mid', 'inner-of-outer', 'mid-of-outer'):
        for views in ((None,), (None, (slice(None, None, 2),))):
            inner, mid, outer = build()
            for st in (inner, mid, outer):
                for v in views:
                    st.to_mask(d, v)                 # everything evaluated (and memoised) before the moves
            for t in targets:
                moved = {'inner-of-mid': mid.state1, 'inner-of-outer': outer.state1.state1.state1, 'mid-of-outer': outer.state1.state1}[which]
                try:
                    moved.move_to(*t)
                except Exception as e:
                    R.fail("stale|nested-move|%s|exception" % which, "move_to on the %s raised %s: %s" % (which, type(e).__name__, e), None)
                    break
                for nm, st in (('inner', inner), ('mid', mid), ('outer', outer)):
                    # the objects in the tree are copies made by the combinators: observe through the tree itself
                    pass
                top = {'inner-of-mid': mid, 'inner-of-outer': outer, 'mid-of-outer': outer}[which]
                for v in views:
                    got = np.asarray(top.to_mask(d, v))
                    exp = np.asarray(rebuild_fresh(top).to_mask(d, v))
                    R.count(('nested-move', which, t, repr(v)), 'nested-move-histories')
                    if not np.array_equal(got, exp):
                        R.fail("stale|nested-move|%s|mask" % which, "after moving the %s to %r the enclosing selection still gives %s (view %r), a fresh copy gives %s" % (which, t, fmt(got), v, fmt(exp)), None)


def random_subset_histories(R):
    """statistics over a random sample keep their sample positions between calls: after the dataset (or the view) changes shape the next
    request must be answered as a fresh dataset would answer it (constant data, so the answer does not depend on the sample)"""
    from glue.core import Data
    cases = {
        'refresh-same-size-other-shape': ((2, 50), (50, 2)), 'refresh-other-size': ((4, 30), (5, 5)), 'refresh-3d': ((2, 5, 10), (10, 5, 2)), 'refresh-same-shape': ((10, 10), (10, 10)),
    }
    for name, (s1, s2) in cases.items():
        d = Data(x=np.full(s1, 3.0), label='d')
        R.count(('random-subset', name), 'random-subset-histories')
        try:
            a = d.compute_statistic('maximum', d.id['x'], random_subset=10)
            d.update_values_from_data(Data(x=np.full(s2, 7.0), label='d'))
            b = d.compute_statistic('maximum', d.id['x'], random_subset=10)
            c = d.compute_statistic('minimum', d.id['x'], random_subset=10)
            ok, det = (a == 3.0 and b == 7.0 and c == 7.0), "maximum before %r, after the refresh maximum %r minimum %r (expected 3, 7, 7)" % (a, b, c)
        except Exception as e:
            ok, det = False, "raised %s: %s" % (type(e).__name__, e)
        if not ok:
            R.fail("stale|random-subset|%s" % name, "sampled statistic on constant data of shape %r refreshed to shape %r: %s" % (s1, s2, det), None)
    d = Data(x=np.full((20, 20), 2.0), label='d')
    for vname, views in {'two-views-same-size': [(slice(0, 5), slice(None)), (slice(None), slice(0, 5))], 'view-then-whole': [(slice(0, 10), slice(0, 10)), None],
                         'three-views': [(slice(0, 4), slice(None)), (slice(None), slice(0, 4)), (slice(2, 6), slice(0, 20))]}.items():
        R.count(('random-subset', vname), 'random-subset-histories')
        try:
            vals = [d.compute_statistic('maximum', d.id['x'], view=v, random_subset=10) for v in views]
            ok, det = all(v == 2.0 for v in vals), "sampled maxima %r over views %r of constant data 2.0" % (vals, views)
        except Exception as e:
            ok, det = False, "raised %s: %s" % (type(e).__name__, e)
        if not ok:
            R.fail("stale|random-subset|%s" % vname, det, None)


def fmt2(v):
    return v if isinstance(v, str) else np.asarray(v).tolist()


def run(tier, seed, R):
    rng = random.Random(seed)
    R.rule = ("evaluate -> mutate -> evaluate on real objects, compared with a freshly constructed never-evaluated copy: (a) every property setter of "
              "every SubsetState subclass (found by introspection) at top level and nested in and/not/many-way-or/depth-3 composites; (b) public mutators of "
              "every closed-form Roi class reached through state.roi, same nestings; (c) histories of length <= 2 (3 thorough) over {update_components (1 and 2 components, "
              "rejected update), update_values_from_data (same/new shape), move_to} x %d selections (leaves and composites), observing mask, sum statistic and histogram, "
              "also from inside the change notification; (d) link histories of length 3 (4 thorough) over {add, remove, set_links, replace by a link with another function}; (e) pixel-link histories (straight / swapped axes / none, changed link by link, in one set_links or inside a delayed update) observed through a slice selection on the other dataset; (f) composites nested under evaluated and / not / xor composites moved directly, 3 targets x 2 view sets. "
              "non-trivial = distinct history in which the mutation changes the expected answer")
    R.exhaustive = True
    setter_histories(R, tier)
    roi_histories(R, tier)
    data_histories(R, tier, rng)
    link_histories(R, tier, rng)
    pixel_alignment_histories(R, tier, rng)
    nested_move_histories(R, tier, rng)
    random_subset_histories(R)
    R.samples.append({"history": "selection (~rect|(gt^range)): observe; update_components({y,x}); observe vs fresh copy; move_to(5,3); observe vs fresh copy"})
