"""C11 bounded stand-in: key joins against a naive by-value oracle (python loops), for the four join shapes, key dtypes
and string widths, duplicates, empty selections, views, both directions, chains and cycles of up to 4 datasets."""
import itertools
import random

import numpy as np

KEYSETS = {
    'int': (np.array([1, 2, 2, 3, 5]), np.array([2, 5, 7, 2])),
    'int32-int64': (np.array([1, 2, 2, 3, 5], dtype='int32'), np.array([2, 5, 7, 2], dtype='int64')),
    'int-float': (np.array([1, 2, 2, 3, 5]), np.array([2., 5., 7.5, 2.])),
    'float': (np.array([1.5, 2., 2., 3.25, 5.]), np.array([2., 5., 7.125, 1.5])),
    'float-nan': (np.array([1.5, 2., 2., np.nan, 5.]), np.array([2., 5., np.nan, 1.5])),
    'float-signed-zero': (np.array([0., -0., 2., 3.25, 5.]), np.array([2., -0., 7.125, 0.])),
    'str': (np.array(['a', 'bb', 'bb', 'ccc', 'e']), np.array(['bb', 'e', 'zz', 'bb'])),
    'str-width': (np.array(['a', 'bb', 'bb', 'c', 'e']), np.array(['bb', 'e', 'zzzz', 'bb'])),
    'bytes-free': (np.array([10, 20, 20, 30, 50], dtype='uint8'), np.array([20, 50, 70, 20], dtype='int64')),
    # identifiers beyond 2**53 (not representable as float64); in the 1-n / n-1 shapes the second key column is uint64 next to an int64 one
    'large-int': (np.array([2 ** 53, 2 ** 53 + 1, 2 ** 53 + 1, 2 ** 53 + 3, 5], dtype='int64'), np.array([2 ** 53 + 1, 5, 7, 2 ** 53 + 1], dtype='int64')),
}
SECOND = {
    'int': (np.array([0, 0, 1, 1, 0]), np.array([0, 0, 1, 1])),
    'int32-int64': (np.array([0, 0, 1, 1, 0], dtype='int16'), np.array([0, 0, 1, 1], dtype='int64')),
    'int-float': (np.array([0, 0, 1, 1, 0]), np.array([0., 0., 1., 1.])),
    'float': (np.array([0., 0., 1., 1., 0.]), np.array([0., 0., 1., 0.])),
    'float-nan': (np.array([0., 0., 1., 1., 0.]), np.array([0., 0., 1., 0.])),
    'float-signed-zero': (np.array([-0., 0., 1., 1., 0.]), np.array([0., 0., 1., -0.])),
    'str': (np.array(['x', 'x', 'y', 'y', 'x']), np.array(['x', 'x', 'y', 'y'])),
    'str-width': (np.array(['x', 'x', 'yy', 'yy', 'x']), np.array(['x', 'x', 'yy', 'y'])),
    'bytes-free': (np.array([0, 0, 1, 1, 0]), np.array([0, 0, 1, 1], dtype='uint8')),
    'large-int': (np.array([0, 0, 1, 1, 0]), np.array([0, 0, 1, 1])),
}


def veq(a, b):
    """equality by value of two key values"""
    try:
        if isinstance(a, (str, np.str_)) != isinstance(b, (str, np.str_)):
            return False
        if isinstance(a, (int, np.integer)) and isinstance(b, (int, np.integer)):
            return int(a) == int(b)          # exact, also for int64 against uint64 beyond 2**53
        return bool(a == b)
    except Exception:
        return False


def oracle(shape, left_cols, right_cols, right_sel):
    """left_cols/right_cols: lists of 1-d arrays; right_sel: bool array. returns expected bool list over left rows"""
    nl = len(left_cols[0])
    sel = [j for j in range(len(right_cols[0])) if right_sel[j]]
    out = []
    for i in range(nl):
        if shape == '1-1':
            ok = any(veq(left_cols[0][i], right_cols[0][j]) for j in sel)
        elif shape == 'n-n':
            ok = any(all(veq(lc[i], rc[j]) for lc, rc in zip(left_cols, right_cols)) for j in sel)
        elif shape == '1-n':
            ok = any(veq(left_cols[0][i], rc[j]) for rc in right_cols for j in sel)
        else:   # n-1
            ok = any(veq(lc[i], right_cols[0][j]) for lc in left_cols for j in sel)
        out.append(ok)
    return out


def shapes_case(R, kind, shape, direction, seln, view):
    from glue.core import Data
    (k1, k2), (s1, s2) = KEYSETS[kind], SECOND[kind]
    dl = Data(k=k1, s=s1, v=np.arange(len(k1), dtype=float), label='L')
    dr = Data(k=k2, s=s2, w=np.arange(len(k2), dtype=float), label='R')
    lc = {'1-1': ('k',), 'n-n': ('k', 's'), '1-n': ('k',), 'n-1': ('k', 's')}[shape]
    rc = {'1-1': ('k',), 'n-n': ('k', 's'), '1-n': ('k', 's'), 'n-1': ('k',)}[shape]
    if shape in ('1-n', 'n-1') and kind in ('str', 'str-width', 'float', 'float-nan', 'float-signed-zero', 'int-float', 'int32-int64', 'bytes-free', 'large-int'):
        # second column must be comparable with the key column: reuse the key column shifted
        other = (lambda a: np.roll(a, 1).astype('uint64')) if kind == 'large-int' else (lambda a: np.roll(a, 1))
        if shape == '1-n':
            dr = Data(k=k2, s=other(k2), w=np.arange(len(k2), dtype=float), label='R')
        else:
            dl = Data(k=k1, s=other(k1), v=np.arange(len(k1), dtype=float), label='L')
    if direction == 'register-on-left':
        dl.join_on_key(dr, lc if len(lc) > 1 else lc[0], rc if len(rc) > 1 else rc[0])
    else:
        dr.join_on_key(dl, rc if len(rc) > 1 else rc[0], lc if len(lc) > 1 else lc[0])
    thr = {'none': 99, 'some': 0.5, 'all': -1}[seln]
    state = dr.id['w'] > thr
    right_sel = np.asarray(dr['w']) > thr
    exp = np.array(oracle(shape, [np.asarray(dl[c]) for c in lc], [np.asarray(dr[c]) for c in rc], right_sel))
    try:
        got = np.asarray(dl.get_mask(state, view=view))
    except Exception as e:
        return ('exception:%s' % type(e).__name__, "%s: %s" % (type(e).__name__, e))
    want = exp if view is None else exp[view]
    if got.shape != want.shape or not np.array_equal(got, want):
        return ('mask', "rows selected in L: %s, by key membership: %s" % (got.astype(int).tolist(), want.astype(int).tolist()))
    # the other direction: a selection defined on L propagates to R
    stl = dl.id['v'] >= 2
    left_sel = np.asarray(dl['v']) >= 2
    rshape = {'1-1': '1-1', 'n-n': 'n-n', '1-n': 'n-1', 'n-1': '1-n'}[shape]
    exp2 = np.array(oracle(rshape, [np.asarray(dr[c]) for c in rc], [np.asarray(dl[c]) for c in lc], left_sel))
    try:
        got2 = np.asarray(dr.get_mask(stl))
    except Exception as e:
        return ('exception-reverse:%s' % type(e).__name__, "%s: %s" % (type(e).__name__, e))
    if not np.array_equal(got2, exp2):
        return ('mask-reverse', "rows selected in R: %s, by key membership: %s" % (got2.astype(int).tolist(), exp2.astype(int).tolist()))
    return None


def large_case(kind, shape, seed):
    """key columns with many duplicates and many distinct selected keys (numpy switches algorithms with size)"""
    from glue.core import Data
    r = np.random.RandomState(seed)
    nl, nr, nd = 90, 70, 40
    pool = {'float': np.arange(nd) * 1.25 + 0.5, 'str': np.array(['k%03d' % i for i in range(nd)]), 'int': np.arange(nd) * 1000003}[kind]
    k1, k2 = pool[r.randint(0, nd, nl)], pool[r.randint(0, nd, nr)]
    s1, s2 = pool[r.randint(0, nd, nl)], pool[r.randint(0, nd, nr)]
    dl = Data(k=k1, s=s1, v=np.arange(nl, dtype=float), label='L')
    dr = Data(k=k2, s=s2, w=r.uniform(0, 1, nr), label='R')
    lc = {'1-1': ('k',), 'n-n': ('k', 's'), '1-n': ('k',), 'n-1': ('k', 's')}[shape]
    rc = {'1-1': ('k',), 'n-n': ('k', 's'), '1-n': ('k', 's'), 'n-1': ('k',)}[shape]
    dl.join_on_key(dr, lc if len(lc) > 1 else lc[0], rc if len(rc) > 1 else rc[0])
    state = dr.id['w'] > 0.45
    right_sel = np.asarray(dr['w']) > 0.45
    L = [np.asarray(dl[c]) for c in lc]
    Rr = [np.asarray(dr[c])[right_sel] for c in rc]
    if shape == '1-1':
        ks = set(Rr[0].tolist()); exp = [x in ks for x in L[0].tolist()]
    elif shape == 'n-n':
        ks = set(zip(*[c.tolist() for c in Rr])); exp = [t in ks for t in zip(*[c.tolist() for c in L])]
    elif shape == '1-n':
        ks = set(Rr[0].tolist()) | set(Rr[1].tolist()); exp = [x in ks for x in L[0].tolist()]
    else:
        ks = set(Rr[0].tolist()); exp = [(a in ks) or (b in ks) for a, b in zip(L[0].tolist(), L[1].tolist())]
    try:
        got = np.asarray(dl.get_mask(state))
    except Exception as e:
        return ('exception:%s' % type(e).__name__, "%s: %s" % (type(e).__name__, e))
    exp = np.array(exp)
    if not np.array_equal(got, exp):
        bad = np.flatnonzero(got != exp)
        return ('mask', "%d of %d rows differ from key membership (first: row %d with key %r selected=%s)" % (bad.size, nl, bad[0], L[0][bad[0]], bool(got[bad[0]])))
    return None


def chain_case(n, cyclic, evaluable):
    """datasets D0..D(n-1) joined in a chain (or cycle) on 1-1 keys; the selection is defined on D(n-1) (or on a foreign dataset)"""
    from glue.core import Data
    from glue.core.exceptions import IncompatibleAttribute
    keys = [np.array([1, 2, 3, 4]), np.array([2, 3, 4, 5]), np.array([3, 4, 5, 6]), np.array([4, 5, 6, 1])]
    ds = [Data(k=keys[i], v=np.arange(4.) + i, label='D%d' % i) for i in range(n)]
    for i in range(n - 1):
        ds[i].join_on_key(ds[i + 1], 'k', 'k')
    if cyclic and n > 2:
        ds[n - 1].join_on_key(ds[0], 'k', 'k')
    if evaluable:
        state = ds[n - 1].id['v'] >= (n - 1 + 1)          # rows 1.. of the last dataset
        sel = np.asarray(ds[n - 1]['v']) >= n
        # propagate back by key membership along the chain (first reachable route in registration order)
        def propagate(i, visited):
            if i == n - 1:
                return sel
            for j in ([i + 1] if i + 1 < n else []) + ([i - 1] if i - 1 >= 0 else []) + ([n - 1] if cyclic and i == 0 and n > 2 else []) + ([0] if cyclic and i == n - 1 else []):
                pass
            return None
        try:
            got = np.asarray(ds[0].get_mask(state))
        except IncompatibleAttribute:
            return ('incompatible', "a selection evaluable %d joins away was reported incompatible" % (n - 1))
        # oracle: D(n-1) selected keys -> D(n-2) rows with those keys -> ... -> D0  (the chain route); in a cycle D0 is
        # ALSO directly joined to D(n-1): the library takes the first route in registration order (D1 first), same as the chain
        cur = sel
        for i in range(n - 2, -1, -1):
            kk = set(keys[i + 1][cur].tolist())
            cur = np.array([k in kk for k in keys[i].tolist()])
        if not np.array_equal(got, cur):
            return ('chain-mask', "D0 selects %s, key membership along the chain gives %s" % (got.astype(int).tolist(), cur.astype(int).tolist()))
        return None
    else:
        foreign = Data(z=[1., 2.], label='foreign')
        state = foreign.id['z'] > 1
        for d in ds:
            try:
                d.get_mask(state)
                return ('not-incompatible', "a selection no dataset can evaluate produced a mask on %s" % d.label)
            except IncompatibleAttribute:
                pass
            except RecursionError:
                return ('recursion', "cyclic joins did not terminate")
            if getattr(d, '_recursing', False):
                return ('guard-left-set', "the recursion guard of %s is still set after the call" % d.label)
        return None


def run(tier, seed, R):
    rng = random.Random(seed)
    R.rule = ("two joined datasets x join shapes {1-1, n-n, 1-n, n-1} x key kinds {int, int32/int64, int/float, float with NaN, str, str of different widths, uint8/int64} "
              "x registration direction x selection {none, some, all} x views {None, slice, stepped slice, index array}, masks compared with a naive by-value oracle in both "
              "directions; chains and cycles of 2-4 datasets, evaluable and not (must terminate with 'incompatible', guard cleared). non-trivial = distinct case with a partial selection")
    R.exhaustive = True
    views = [None, slice(1, 4), slice(None, None, 2), np.array([4, 0, 2])]
    for kind in KEYSETS:
        for shape in ('1-1', 'n-n', '1-n', 'n-1'):
            for direction in ('register-on-left', 'register-on-right'):
                for seln in ('none', 'some', 'all'):
                    for vi, view in enumerate(views):
                        r = shapes_case(R, kind, shape, direction, seln, view)
                        R.count((kind, shape, direction, seln, vi) if seln == 'some' else None, 'join-shapes')
                        if r is not None:
                            R.fail("join|%s|%s|%s" % (shape, kind, r[0]), "%s join on %s keys (%s, selection %s, view %r): %s" % (shape, kind, direction, seln, view, r[1]),
                                   "import numpy as np\nfrom numpy import array\nfrom bounded.c11_joins import shapes_case\nr = shapes_case(None, %r, %r, %r, %r, %r)\nprint(r)\nsys.exit(1 if r else 0)\n"
                                   % (kind, shape, direction, seln, view))
    for kind in ('float', 'str', 'int'):
        for shape in ('1-1', 'n-n', '1-n', 'n-1'):
            for sd in range(3 if tier == 'quick' else 12):
                r = large_case(kind, shape, seed * 100 + sd)
                R.count(('large', kind, shape, sd), 'join-large')
                if r is not None:
                    R.fail("join-large|%s|%s|%s" % (shape, kind, r[0]), "%s join on %s keys, 90x70 rows with duplicates, ~35 selected rows: %s" % (shape, kind, r[1]),
                           "from bounded.c11_joins import large_case\nr = large_case(%r, %r, %d)\nprint(r)\nsys.exit(1 if r else 0)\n" % (kind, shape, seed * 100 + sd))
    for n in (2, 3, 4):
        for cyclic in (False, True):
            for evaluable in (True, False):
                r = chain_case(n, cyclic, evaluable)
                R.count(('chain', n, cyclic, evaluable), 'join-chains')
                if r is not None:
                    R.fail("join-chain|%s|n=%d|%s" % (r[0], n, 'cycle' if cyclic else 'chain'), "%d datasets, %s, selection %s: %s"
                           % (n, 'cyclic joins' if cyclic else 'chain of joins', 'evaluable at the far end' if evaluable else 'evaluable nowhere', r[1]),
                           "from bounded.c11_joins import chain_case\nr = chain_case(%d, %r, %r)\nprint(r)\nsys.exit(1 if r else 0)\n" % (n, cyclic, evaluable))
    R.samples.append({"join": "n-n join on (k, s) with k int32 vs int64, selection w > 0.5 on R, view slice(1, 4) on L vs by-value oracle"})
