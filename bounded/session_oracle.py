"""Observational snapshot of a DataCollection (used by C02 round trips, C12 old-format round trips, C06/C13 oracles).
Two collections are equivalent iff their snapshots are equal on the requested aspects."""
import numpy as np


def _arr(a):
    a = np.asarray(a)
    if a.dtype.kind in 'fc':
        return ('f', a.shape, tuple(np.where(np.isnan(a.ravel()), -9.87654321e300, a.ravel()).tolist()))
    if a.dtype.kind == 'M':
        return ('M', a.shape, tuple(a.ravel().astype('datetime64[ns]').astype('int64').tolist()))
    return (a.dtype.kind if a.dtype.kind in 'biu' else 'o', a.shape, tuple(a.ravel().tolist()))


def _num(a):
    """numeric comparison form: ints and floats compare equal by value"""
    k, shp, vals = _arr(a)
    if k in 'biuf':
        return ('n', shp, tuple(float(v) for v in vals))
    return (k, shp, vals)


def style_tuple(style):
    out = []
    for att in ('color', 'alpha', 'linewidth', 'linestyle', 'marker', 'markersize', 'preferred_cmap'):
        if hasattr(style, att):
            v = getattr(style, att)
            out.append((att, getattr(v, 'name', v) if att == 'preferred_cmap' else v))
    return tuple(out)


def mask_of(subset):
    from glue.core.exceptions import IncompatibleAttribute
    try:
        return _arr(subset.to_mask())
    except IncompatibleAttribute:
        return 'incompatible'
    except Exception as e:      # a selection that cannot be evaluated at all
        return 'error:%s' % type(e).__name__


def snapshot(dc, aspects=None):
    from glue.core.component import CategoricalComponent, DerivedComponent, CoordinateComponent
    snap = {'n_data': len(dc), 'data': []}
    for d in dc:
        ds = {'label': d.label, 'shape': tuple(d.shape), 'ndim': d.ndim}
        ds['components'] = [c.label for c in d.components]
        ds['main_components'] = [c.label for c in d.main_components]
        ds['derived_components'] = [c.label for c in d.derived_components]
        vals = {}
        kinds = {}
        for c in d.components:
            comp = d.get_component(c)
            kinds[c.label] = type(comp).__name__
            try:
                if isinstance(comp, CategoricalComponent):
                    vals[c.label] = ('cat', _arr(comp.labels), tuple(np.asarray(comp.categories).tolist()))
                else:
                    vals[c.label] = _num(d[c])
            except Exception as e:
                vals[c.label] = 'error:%s' % type(e).__name__
        ds['values'] = vals
        ds['kinds'] = kinds
        ds['units'] = {c.label: str(d.get_component(c).units or '') for c in d.main_components}
        ds['style'] = style_tuple(d.style)
        ds['uuid'] = d.uuid
        # entries whose value has no saver are dropped from the session by design (documented filter in the Data saver): not compared
        ds['meta'] = tuple(sorted((str(k), repr(v)) for k, v in d.meta.items() if type(v).__name__ != 'NoSaver'))
        # the coordinate frame: class, and which identifier stands for which axis (pixel and world lists are indexed by axis)
        ds['coords'] = (type(d.coords).__name__ if d.coords is not None else None, tuple(c.label for c in d.pixel_component_ids),
                        tuple(c.label for c in getattr(d, 'world_component_ids', [])),
                        tuple(getattr(d.get_component(c), 'axis', None) for c in d.pixel_component_ids),
                        tuple(getattr(d.get_component(c), 'axis', None) for c in getattr(d, 'world_component_ids', [])))
        ds['subsets'] = [(s.label, mask_of(s), style_tuple(s.style)) for s in d.subsets]
        ds['n_subsets'] = len(d.subsets)
        # accessible linked attributes: values of every externally derivable component
        ext = {}
        for cid in getattr(d, 'externally_derivable_components', {}):
            if cid.parent is None or cid.parent is d:
                continue        # not an attribute of another dataset (targets of the dataset's own derived-component links show up here too)
            try:
                ext[(cid.parent.label if cid.parent is not None else None, cid.label)] = _num(d[cid])
            except Exception as e:
                ext[(cid.parent.label if cid.parent is not None else None, cid.label)] = 'error:%s' % type(e).__name__
        ds['linked'] = tuple(sorted(ext.items(), key=lambda kv: str(kv[0])))
        kj = []
        for other, (c0, c1) in getattr(d, '_key_joins', {}).items():
            kj.append((other.label, tuple(c.label for c in c0), tuple(c.label for c in c1)))
        ds['key_joins'] = tuple(sorted(kj))
        snap['data'].append(ds)
    snap['groups'] = [(g.label, style_tuple(g.style), tuple(mask_of(s) for s in g.subsets), tuple(s.data.label for s in g.subsets))
                      for g in dc.subset_groups]
    snap['n_groups'] = len(dc.subset_groups)
    snap['n_links'] = len(dc.external_links)
    return snap


def diff(a, b, aspects, path=''):
    """list of human-readable differences between two snapshots, restricted to `aspects` (set of keys; None = all)"""
    out = []
    if isinstance(a, dict) and isinstance(b, dict):
        for k in a:
            if aspects is not None and path == '' and k not in aspects and k != 'data':
                continue
            if aspects is not None and path.startswith('data[') and path.count('.') == 0 and k not in aspects:
                continue
            if k not in b:
                out.append("%s.%s missing" % (path, k))
            else:
                out.extend(diff(a[k], b[k], aspects, "%s.%s" % (path, k) if path else k))
        return out
    if isinstance(a, list) and isinstance(b, list) and path == 'data':
        if len(a) != len(b):
            return ["number of datasets %d != %d" % (len(a), len(b))]
        for i, (x, y) in enumerate(zip(a, b)):
            out.extend(diff(x, y, aspects, "data[%d]" % i))
        return out
    if a != b:
        sa, sb = repr(a), repr(b)
        out.append("%s: %s != %s" % (path, sa[:160], sb[:160]))
    return out
