"""C08 bounded stand-in: region containment against independently written geometric truth on parameter/point grids
(points closer than tol = 1e-6*scale to the boundary excluded), equivariance under move/rotate, polygon approximation,
copy and save/restore, independence of array shape / broadcasting / chunking."""
import itertools
import math
import random

import numpy as np

TOL = 1e-6


def grid(lo, hi, n, rng, jitter=True):
    xs = np.linspace(lo, hi, n)
    X, Y = np.meshgrid(xs, xs)
    if jitter:
        nr = np.random.RandomState(rng.randrange(10 ** 6))
        X = X + nr.uniform(-1e-3, 1e-3, X.shape)
        Y = Y + nr.uniform(-1e-3, 1e-3, Y.shape)
    return X.ravel(), Y.ravel()


def rot(theta, x, y):
    c, s = math.cos(theta), math.sin(theta)
    return c * x - s * y, s * x + c * y


def rect_truth(xmin, xmax, ymin, ymax, theta, X, Y, scale):
    cx, cy = (xmin + xmax) / 2, (ymin + ymax) / 2
    u, v = rot(-theta, X - cx, Y - cy)
    w, h = xmax - xmin, ymax - ymin
    dist = np.minimum(w / 2 - np.abs(u), h / 2 - np.abs(v))     # signed distance-like: >0 inside
    far = np.abs(np.where((np.abs(u) <= w / 2) & (np.abs(v) <= h / 2), dist,
                          np.maximum(np.abs(u) - w / 2, np.abs(v) - h / 2))) > TOL * scale
    return (np.abs(u) < w / 2) & (np.abs(v) < h / 2), far


def ellipse_truth(xc, yc, rx, ry, theta, X, Y, scale):
    u, v = rot(-theta, X - xc, Y - yc)
    q = (u / rx) ** 2 + (v / ry) ** 2
    far = np.abs(np.sqrt(q) - 1) * min(rx, ry) > TOL * scale
    return q < 1, far


ANGLES = [0.0, math.pi / 2, math.pi, -math.pi / 2, 3 * math.pi / 2, 2 * math.pi, 0.3, 1.0, 2.5, -0.7, math.pi / 4,
          1e-12, math.pi / 2 + 1e-12, math.pi - 1e-11, 1e-4, math.pi / 2 + 1e-4, math.pi + 5e-4, 5 * math.pi / 2 + 5e-4, 41 * math.pi / 2 + 5e-4,
          20 * math.pi + 1e-4, -7 * math.pi / 2 - 2e-4]


def closed_form(R, rng, tier):
    from glue.core import roi as G
    n = 21 if tier == 'quick' else 41
    rects = [(0, 4, 0, 2), (-3, 1, 5, 5.5), (0, 200, 0, 1), (-5000, 5000, -1, 1)]
    for (xmin, xmax, ymin, ymax) in rects:
        scale = max(xmax - xmin, ymax - ymin)
        cx, cy = (xmin + xmax) / 2, (ymin + ymax) / 2
        half = scale * 0.75
        X, Y = grid(-half, half, n, rng)
        X, Y = X + cx, Y + cy
        for th in ANGLES:
            for how in ('direct', 'rotate_to'):
                r = G.RectangularROI(xmin, xmax, ymin, ymax, theta=th if how == 'direct' else None)
                if how == 'rotate_to':
                    r.rotate_to(th)
                truth, far = rect_truth(xmin, xmax, ymin, ymax, th, X, Y, scale)
                got = r.contains(X, Y)
                bad = np.flatnonzero((got != truth) & far)
                R.count(('rect', xmin, xmax, th, how), 'closed-form')
                if bad.size:
                    i = bad[0]
                    cls = 'near-quarter-turn' if min(abs((th % (math.pi / 2))), abs((th % (math.pi / 2)) - math.pi / 2)) < 1e-2 and th != 0 else 'general'
                    R.fail("roi|RectangularROI.contains|%s" % cls,
                           "RectangularROI(%g,%g,%g,%g, theta=%r via %s).contains(%r, %r) = %s, geometrically %s (%d of %d points wrong)"
                           % (xmin, xmax, ymin, ymax, th, how, X[i], Y[i], bool(got[i]), bool(truth[i]), bad.size, far.sum()),
                           "import math\nfrom glue.core.roi import RectangularROI\nr = RectangularROI(%r, %r, %r, %r, theta=%r)\n"
                           "ok = bool(r.contains(%r, %r)) == %r\nprint(ok)\nsys.exit(0 if ok else 1)\n" % (xmin, xmax, ymin, ymax, th, float(X[i]), float(Y[i]), bool(truth[i])))
                    break
    ells = [(1, 2, 3, 1), (0, 0, 0.5, 4), (10, -10, 100, 1)]
    for (xc, yc, rx, ry) in ells:
        scale = max(rx, ry)
        X, Y = grid(-1.4 * scale, 1.4 * scale, n, rng)
        X, Y = X + xc, Y + yc
        for th in ANGLES:
            e = G.EllipticalROI(xc, yc, rx, ry, theta=th)
            truth, far = ellipse_truth(xc, yc, rx, ry, th, X, Y, scale)
            got = e.contains(X, Y)
            bad = np.flatnonzero((got != truth) & far)
            R.count(('ellipse', xc, rx, th), 'closed-form')
            if bad.size:
                i = bad[0]
                R.fail("roi|EllipticalROI.contains", "EllipticalROI(%g,%g,%g,%g, theta=%r).contains(%r, %r) = %s, geometrically %s"
                       % (xc, yc, rx, ry, th, X[i], Y[i], bool(got[i]), bool(truth[i])),
                       "from glue.core.roi import EllipticalROI\nok = bool(EllipticalROI(%r, %r, %r, %r, theta=%r).contains(%r, %r)) == %r\nsys.exit(0 if ok else 1)\n"
                       % (xc, yc, rx, ry, th, float(X[i]), float(Y[i]), bool(truth[i])))
                break
            b = e.bounds()
            inside = np.flatnonzero(truth & far)
            if inside.size and not (np.all(X[inside] >= b[0][0]) and np.all(X[inside] <= b[0][1]) and np.all(Y[inside] >= b[1][0]) and np.all(Y[inside] <= b[1][1])):
                R.fail("roi|EllipticalROI.bounds", "bounds() of EllipticalROI(%g,%g,%g,%g, theta=%r) exclude interior points" % (xc, yc, rx, ry, th), None)
    X, Y = grid(-6, 6, n, rng)
    for (xc, yc, r) in [(0, 0, 3), (1.5, -2, 0.25), (0, 0, 5.9)]:
        c = G.CircularROI(xc, yc, r)
        d = np.hypot(X - xc, Y - yc)
        far = np.abs(d - r) > TOL * r
        bad = (c.contains(X, Y) != (d < r)) & far
        R.count(('circle', xc, r), 'closed-form')
        if bad.any():
            R.fail("roi|CircularROI.contains", "CircularROI(%g,%g,%g) wrong for %d points" % (xc, yc, r, bad.sum()), None)
    for (xc, yc, ri, ro) in [(0, 0, 1, 3), (1, 1, 0.5, 5)]:
        a = G.CircularAnnulusROI(xc, yc, ri, ro)
        d = np.hypot(X - xc, Y - yc)
        far = (np.abs(d - ri) > TOL * ro) & (np.abs(d - ro) > TOL * ro)
        bad = (a.contains(X, Y) != ((d >= ri) & (d < ro))) & far
        R.count(('annulus', xc, ri), 'closed-form')
        if bad.any():
            R.fail("roi|CircularAnnulusROI.contains", "CircularAnnulusROI(%g,%g,%g,%g) wrong for %d points" % (xc, yc, ri, ro, bad.sum()), None)
    for ori, cls in (('x', G.XRangeROI), ('y', G.YRangeROI)):
        rr = cls(-1.5, 2.25)
        coord = X if ori == 'x' else Y
        far = (np.abs(coord + 1.5) > TOL) & (np.abs(coord - 2.25) > TOL)
        bad = (rr.contains(X, Y) != ((coord > -1.5) & (coord < 2.25))) & far
        R.count(('range', ori), 'closed-form')
        if bad.any():
            R.fail("roi|RangeROI.contains", "%sRangeROI wrong for %d points" % (ori.upper(), bad.sum()), None)


def poly_truth(vx, vy, X, Y):
    """even-odd ray casting (independent oracle); returns (inside, far-from-edges)"""
    vx, vy = np.asarray(vx, float), np.asarray(vy, float)
    if vx[0] != vx[-1] or vy[0] != vy[-1]:
        vx, vy = np.append(vx, vx[0]), np.append(vy, vy[0])
    inside = np.zeros(X.shape, bool)
    dmin = np.full(X.shape, np.inf)
    for i in range(len(vx) - 1):
        x1, y1, x2, y2 = vx[i], vy[i], vx[i + 1], vy[i + 1]
        cond = ((y1 > Y) != (y2 > Y))
        with np.errstate(all='ignore'):
            xint = (x2 - x1) * (Y - y1) / (y2 - y1) + x1
        inside ^= cond & (X < xint)
        # distance to the segment
        dx, dy = x2 - x1, y2 - y1
        L2 = dx * dx + dy * dy
        t = np.clip(((X - x1) * dx + (Y - y1) * dy) / L2, 0, 1) if L2 > 0 else np.zeros(X.shape)
        dmin = np.minimum(dmin, np.hypot(X - (x1 + t * dx), Y - (y1 + t * dy)))
    return inside, dmin


POLYS = {
    'square-open': ([0, 4, 4, 0], [0, 0, 3, 3]),
    'square-closed': ([0, 4, 4, 0, 0], [0, 0, 3, 3, 0]),
    'concave-L': ([0, 4, 4, 2, 2, 0], [0, 0, 1, 1, 3, 3]),
    'triangle': ([0, 5, 1], [0, 1, 4]),
    'arrow-closed': ([0, 3, 3, 5, 3, 3, 0, 0], [1, 1, 0, 2, 4, 3, 3, 1]),
}


def polygons(R, rng, tier):
    from glue.core import roi as G
    n = 25 if tier == 'quick' else 45
    for name, (vx, vy) in POLYS.items():
        X, Y = grid(-1.5, 6.5, n, rng)
        p = G.PolygonalROI(vx, vy)
        truth, d = poly_truth(vx, vy, X, Y)
        far = d > 1e-6 * 6
        got = np.asarray(p.contains(X, Y))
        bad = np.flatnonzero((got != truth) & far)
        R.count(('poly', name), 'polygons')
        if bad.size:
            i = bad[0]
            R.fail("roi|PolygonalROI.contains|%s" % name, "polygon %s: contains(%r, %r) = %s, ray casting says %s" % (name, X[i], Y[i], bool(got[i]), bool(truth[i])), None)
            continue
        # move_to: translation by exactly the displacement, centre at the target
        for target in ((10.0, -3.0), (0.25, 0.5)):
            for times in (1, 2):
                q = G.PolygonalROI(list(vx), list(vy))
                try:
                    c0 = q.center()
                    for _ in range(times):
                        q.move_to(*target)
                    c1 = q.center()
                    dxy = (target[0] - c0[0], target[1] - c0[1])
                    got2 = np.asarray(q.contains(X + dxy[0], Y + dxy[1]))
                    ok = np.allclose(c1, target, atol=1e-9) and not np.any((got2 != truth) & far)
                    det = "centre %r after move_to%r; %d translated points answered differently" % (c1, target, int(np.sum((got2 != truth) & far)))
                except Exception as e:
                    ok, det = False, "move_to%r x%d raised %s: %s" % (target, times, type(e).__name__, e)
                R.count(('poly-move', name, target, times), 'polygons')
                if not ok:
                    R.fail("roi|PolygonalROI.move_to|%s" % ('closed' if 'closed' in name else 'open'), "polygon %s: %s" % (name, det),
                           "from glue.core.roi import PolygonalROI\nq = PolygonalROI(%r, %r)\ntry:\n    [q.move_to(%r, %r) for _ in range(%d)]\n    c = q.center()\n"
                           "    ok = abs(c[0] - %r) < 1e-9 and abs(c[1] - %r) < 1e-9\nexcept Exception as e:\n    print(e); ok = False\nsys.exit(0 if ok else 1)\n"
                           % (list(vx), list(vy), target[0], target[1], times, target[0], target[1]))
        # rotate_to about the centre
        for th in (0.4, math.pi / 2, -2.0):
            q = G.PolygonalROI(list(vx), list(vy))
            try:
                c = q.center()
                q.rotate_to(th)
                xr, yr = rot(th, X - c[0], Y - c[1])
                got3 = np.asarray(q.contains(xr + c[0], yr + c[1]))
                nbad = int(np.sum((got3 != truth) & (d > 1e-5 * 6)))
                ok = nbad == 0
                det = "%d rotated points answered differently after rotate_to(%r)" % (nbad, th)
            except Exception as e:
                ok, det = False, "rotate_to(%r) raised %s: %s" % (th, type(e).__name__, e)
            R.count(('poly-rot', name, th), 'polygons')
            if not ok:
                R.fail("roi|PolygonalROI.rotate_to", "polygon %s: %s" % (name, det), None)


def equivariance(R, rng, tier):
    from glue.core import roi as G
    from glue.core.state import GlueSerializer, GlueUnSerializer
    X, Y = grid(-8, 8, 33, rng)
    makers = {
        'rect': lambda: G.RectangularROI(-1, 3, 0, 2, theta=0.6), 'rect0': lambda: G.RectangularROI(-1, 3, 0, 2),
        'circle': lambda: G.CircularROI(1, 1, 2.5), 'ellipse': lambda: G.EllipticalROI(0, 1, 3, 1, theta=1.1),
        'annulus': lambda: G.CircularAnnulusROI(0.5, 0.5, 1.0, 3.0), 'polygon': lambda: G.PolygonalROI([0, 4, 4, 2, 2, 0], [0, 0, 1, 1, 3, 3]),
    }
    for name, mk in makers.items():
        r0 = mk()
        base = np.asarray(r0.contains(X, Y))
        # shapes / broadcasting / non-contiguous inputs
        X2, Y2 = X.reshape(33, 33), Y.reshape(33, 33)
        variants = {'2d': (X2, Y2), 'fortran': (np.asfortranarray(X2), np.asfortranarray(Y2)), 'strided': (np.repeat(X2, 2, axis=1)[:, ::2], Y2),
                    '3d': (X.reshape(3, 11, 33), Y.reshape(3, 11, 33))}
        for vn, (xa, ya) in variants.items():
            got = np.asarray(mk().contains(xa, ya))
            R.count(('shape', name, vn), 'shape-independence')
            if got.shape != xa.shape or not np.array_equal(got.ravel(), base):
                R.fail("roi|shape-dependence|%s" % vn, "%s.contains on %s input differs from the flat result (shape %r)" % (name, vn, got.shape), None)
        # broadcast views: x varies along one axis, y along the other
        xs, ys = np.linspace(-8, 8, 33) + 1e-4, np.linspace(-8, 8, 29) - 1e-4
        XB, YB = np.broadcast_to(xs[None, :], (29, 33)), np.broadcast_to(ys[:, None], (29, 33))
        gb = np.asarray(mk().contains(XB, YB))
        gf = np.asarray(mk().contains(np.array(XB), np.array(YB)))
        R.count(('broadcast', name), 'shape-independence')
        if gb.shape != (29, 33) or not np.array_equal(gb, gf):
            R.fail("roi|broadcast-dependence", "%s.contains on broadcast views differs from materialised arrays" % name, None)
        # copy and save/restore
        for how in ('copy', 'session'):
            try:
                r1 = mk().copy() if how == 'copy' else GlueUnSerializer.loads(GlueSerializer(mk()).dumps()).object('__main__')
                same = np.array_equal(np.asarray(r1.contains(X, Y)), base)
            except Exception as e:
                same = False
            R.count(('copy', name, how), 'copy-restore')
            if not same:
                R.fail("roi|%s-differs|%s" % (how, name), "%s of a %s region contains different points" % (how, name), None)
        # independence of copies: editing a copy (move, rotate, vertex edits) never changes the original, and vice versa
        edits = [('move_to', lambda r: r.move_to(4.5, -3.25))]
        if hasattr(r0, 'rotate_to'):
            edits.append(('rotate_to', lambda r: r.rotate_to(getattr(r, 'theta', 0.0) + 0.83)))
            edits.append(('rotate_by', lambda r: r.rotate_by(-0.41)))
        if name == 'polygon':
            edits += [('add_point', lambda r: r.add_point(7.0, 7.0)), ('remove_point', lambda r: r.remove_point(4, 0)), ('replace_last_point', lambda r: r.replace_last_point(-3.0, 6.0))]
        for ename, edit in edits:
            for first in ('copy', 'original'):
                try:
                    a = mk()
                    b = a.copy()
                    edited, kept = (b, a) if first == 'copy' else (a, b)
                    edit(edited)
                    ok = np.array_equal(np.asarray(kept.contains(X, Y)), base)
                    # a second, identical edit of the other one must bring both to the same set
                    edit(kept)
                    ok2 = np.array_equal(np.asarray(kept.contains(X, Y)), np.asarray(edited.contains(X, Y)))
                    det = "editing the %s with %s changed the %s" % (first, ename, 'original' if first == 'copy' else 'copy') if not ok else \
                        "after the same %s on both, the copy and the original contain different points" % ename
                    ok = ok and ok2
                except NotImplementedError:
                    continue            # this region kind does not offer that edit
                except Exception as e:
                    ok, det = False, "%s on a %s raised %s: %s" % (ename, first, type(e).__name__, e)
                R.count(('alias', name, ename, first), 'copy-independence')
                if not ok:
                    R.fail("roi|copy-aliasing|%s|%s" % (name, ename), "%s region: %s" % (name, det), None)
        # move_to (closed-form regions): contains'(p) == contains(p - d); centre == target
        if name != 'polygon':
            for target in ((5.0, -2.0), (-0.5, 0.25)):
                r = mk()
                c0 = r.center()
                r.move_to(*target)
                c1 = r.center()
                got = np.asarray(r.contains(X + (target[0] - c0[0]), Y + (target[1] - c0[1])))
                R.count(('move', name, target), 'equivariance')
                if not np.allclose(c1, target, atol=1e-12) or np.sum(got != base) > 0:
                    R.fail("roi|move_to|%s" % name, "%s.move_to%r: centre %r, %d translated points answered differently" % (name, target, c1, int(np.sum(got != base))), None)
        # to_polygon encloses the same set up to the discretisation error
        try:
            vx, vy = mk().to_polygon()
            # the grid plus points on 720 rays from the centre (every half degree, so that no thin sector of a curved region is missed)
            c = mk().center()
            ang = np.deg2rad(np.arange(0, 360, 0.5) + 0.13)
            rad = np.array([0.3, 0.8, 1.4, 2.0, 2.6, 3.3, 4.0])
            XP = np.concatenate([X, (c[0] + rad[:, None] * np.cos(ang)[None, :]).ravel()])
            YP = np.concatenate([Y, (c[1] + rad[:, None] * np.sin(ang)[None, :]).ravel()])
            basep = np.asarray(mk().contains(XP, YP))
            pt, pd = poly_truth(vx, vy, XP, YP)
            disc = 0.01 if name in ('circle', 'ellipse', 'annulus') else 1e-6
            nb = int(np.sum((pt != basep) & (pd > disc)))
            R.count(('to_polygon', name), 'polygon-approximation')
            if nb:
                R.fail("roi|to_polygon|%s" % name, "%s.to_polygon(): %d points farther than %g from the outline are classified differently" % (name, nb, disc), None)
        except Exception as e:
            R.fail("roi|to_polygon-exception|%s" % name, "%s.to_polygon() raised %s" % (name, e), None)


def rotate_by_sequences(R, rng, tier):
    """rotate_by accumulates: after steps d1..dk a region answers as the original rotated by d1+...+dk about its centre (also when the
    accumulated angle is negative or beyond half a turn; polygons have no half-turn symmetry to hide behind)"""
    from glue.core import roi as G
    n = 21 if tier == 'quick' else 41
    seqs = [(0.4,), (-0.3,), (1.0, -1.3), (2.0, 2.0), (0.7,) * 5, (math.pi,), (-2.5, -2.5)]
    makers = {name: (lambda vx=vx, vy=vy: G.PolygonalROI(list(vx), list(vy))) for name, (vx, vy) in POLYS.items() if name in ('triangle', 'concave-L', 'arrow-closed')}
    makers['rectangle'] = lambda: G.RectangularROI(0.0, 4.0, 1.0, 2.0)
    makers['rectangle-tilted'] = lambda: G.RectangularROI(0.0, 4.0, 1.0, 2.0, theta=0.3)
    makers['ellipse'] = lambda: G.EllipticalROI(2.0, 1.5, 3.0, 1.0, theta=0.2)
    for name, mk in makers.items():
        X, Y = grid(-3.5, 8.5, n, rng)
        r0 = mk()
        base = np.asarray(r0.contains(X, Y))
        c = r0.center()
        for seq in seqs:
            q = mk()
            R.count(('rotate-by', name, seq), 'rotate-by')
            try:
                for dth in seq:
                    q.rotate_by(dth)
                tot = sum(seq)
                # a point p is inside the rotated region iff p rotated back by the total angle is inside the original one
                xb, yb = rot(-tot, X - c[0], Y - c[1])
                want = np.asarray(r0.contains(xb + c[0], yb + c[1]))
                # points whose answer flips under a tiny perturbation are too close to the boundary to compare
                near = np.zeros(X.shape, bool)
                for ex, ey in ((2e-6, 0), (-2e-6, 0), (0, 2e-6), (0, -2e-6)):
                    near |= np.asarray(r0.contains(xb + c[0] + ex, yb + c[1] + ey)) != want
                got = np.asarray(q.contains(X, Y))
                nbad = int(np.sum((got != want) & ~near))
                ok, det = nbad == 0, "%d of %d points answered differently from the original rotated by the total angle %.4f" % (nbad, X.size, tot)
            except Exception as e:
                ok, det = False, "raised %s: %s" % (type(e).__name__, e)
            if not ok:
                R.fail("roi|rotate_by|%s" % ('polygon' if name in POLYS else name), "%s after rotate_by%r: %s" % (name, seq, det), None)


def projected3d(R, rng, tier):
    from glue.core import roi as G
    n = 1100000          # > the 10**6 chunk limit written in the code: at least two evaluation chunks
    x = rng_array(rng, n)
    y = rng_array(rng, n, 1)
    z = rng_array(rng, n, 2)
    mats = {
        'identity': np.eye(4), 'scaled-affine': np.eye(4) * 2.0, 'w=0.5': np.diag([1., 1., 1., 0.5]), 'negative-w': np.diag([1., 1., 1., -3.]),
        'perspective': np.array([[1., 0, 0.2, 0], [0, 1., 0.1, 0], [0, 0, 1., 0], [0, 0, 0.05, 1.]]),
        'permute': np.array([[0, 0, 1., 0], [1., 0, 0, 0], [0, 1., 0, 0], [0, 0, 0, 1.]]),
    }
    for mname, M in mats.items():
        roi2 = G.RectangularROI(-1.0, 1.5, -0.5, 2.0)
        p = G.Projected3dROI(roi2, M)
        m = n if mname in ('identity', 'w=0.5') else 20000
        xs, ys, zs = x[:m], y[:m], z[:m]
        got = p.contains3d(xs, ys, zs)
        h = M @ np.vstack([xs, ys, zs, np.ones(m)])
        sx, sy = h[0] / h[3], h[1] / h[3]
        truth = (sx > -1.0) & (sx < 1.5) & (sy > -0.5) & (sy < 2.0)
        far = (np.abs(sx + 1) > 1e-6) & (np.abs(sx - 1.5) > 1e-6) & (np.abs(sy + 0.5) > 1e-6) & (np.abs(sy - 2) > 1e-6)
        nb = int(np.sum((got != truth) & far))
        R.count(('proj', mname, m), 'projected-3d')
        if nb or got.shape != xs.shape:
            R.fail("roi|Projected3dROI.contains3d|%s" % mname, "projection %s (%d points, %d chunk(s)): %d points classified differently from the explicit projection"
                   % (mname, m, 1 + m // 1000000, nb), None)
        # the three coordinate arrays need not share a dtype (an integer counter / pixel index as x, float32 columns, ...): every
        # coordinate is used with its own values
        k = 6000
        for dname, (cx, cy, cz) in {'int-x': (lambda a: np.round(a * 3).astype(np.int64), None, None), 'int-z': (None, None, lambda a: np.round(a * 3).astype(np.int32)),
                                    'float32-x': (lambda a: a.astype(np.float32), None, None), 'float32-y': (None, lambda a: a.astype(np.float32), None),
                                    'all-int': (lambda a: np.round(a * 3).astype(np.int64),) * 3}.items():
            xa, ya, za = [(f(a) if f is not None else a) for f, a in zip((cx, cy, cz), (x[:k], y[:k], z[:k]))]
            gd = p.contains3d(xa, ya, za)
            hd = M @ np.vstack([xa.astype(float), ya.astype(float), za.astype(float), np.ones(k)])
            with np.errstate(all='ignore'):
                sxd, syd = hd[0] / hd[3], hd[1] / hd[3]
            td = (sxd > -1.0) & (sxd < 1.5) & (syd > -0.5) & (syd < 2.0)
            tol = 1e-3
            fard = (np.abs(sxd + 1) > tol) & (np.abs(sxd - 1.5) > tol) & (np.abs(syd + 0.5) > tol) & (np.abs(syd - 2) > tol) & np.isfinite(sxd) & np.isfinite(syd)
            nbd = int(np.sum((np.asarray(gd) != td) & fard))
            R.count(('proj-dtype', mname, dname), 'projected-3d')
            if nbd:
                R.fail("roi|Projected3dROI.contains3d|dtype|%s" % dname, "projection %s, coordinate dtypes %s/%s/%s: %d of %d points classified differently from the explicit projection of the same values"
                       % (mname, xa.dtype, ya.dtype, za.dtype, nbd, k), None)
        # shape independence
        g2 = p.contains3d(xs[:9000].reshape(30, 300), ys[:9000].reshape(30, 300), zs[:9000].reshape(30, 300))
        if g2.shape != (30, 300) or not np.array_equal(g2.ravel(), got[:9000]):
            R.fail("roi|Projected3dROI.contains3d|shape", "contains3d on 2-d inputs differs from the flat result", None)


def rng_array(rng, n, k=0):
    r = np.random.RandomState(rng.randrange(10 ** 6) + k)
    return r.uniform(-3, 3, n)


def categorical(R):
    """membership in a set of labels is exact string equality: values longer or shorter than the selected labels, labels that are prefixes of
    one another, values given as str arrays of another width, object arrays, lists and categorical arrays"""
    from glue.core import roi as G
    from glue.utils.array import categorical_ndarray
    universes = [np.array(['a', 'b', 'c', 'd', 'b', 'a']),
                 np.array(['M', 'Male', 'F', 'Fem', 'Ma', '', 'male']),
                 np.array(['ab', 'abc', 'cd', 'cde', 'a', 'abcd'])]
    sels = [['a'], ['b', 'd'], [], ['z'], ['d', 'c', 'b', 'a'], ['M', 'F'], ['Male'], ['ab', 'cd'], ['abc'], ['abcd', 'a'], ['']]
    for cats in universes:
        forms = {'str-array': cats, 'object-array': cats.astype(object), 'wider-str-array': cats.astype('U12'), '2-d': np.array([cats, cats[::-1]]),
                 'categorical-array': categorical_ndarray(cats)}
        for sel in sels:
            for fname, x in forms.items():
                r = G.CategoricalROI(sel)
                R.count(('catroi', tuple(sel), tuple(cats.tolist()), fname), 'categorical')
                try:
                    got = np.asarray(r.contains(x, None))
                except Exception as e:
                    R.fail("roi|CategoricalROI.contains|exception", "CategoricalROI(%r).contains(%s %r) raised %s: %s" % (sel, fname, cats.tolist(), type(e).__name__, e), None)
                    continue
                exp = np.isin(np.asarray(x).astype(str), sel) if len(sel) else np.zeros(np.shape(x), bool)
                if got.shape != exp.shape or not np.array_equal(got, exp):
                    R.fail("roi|CategoricalROI.contains", "CategoricalROI(%r).contains(%s %r) = %s, exact label membership is %s"
                           % (sel, fname, cats.tolist(), got.astype(int).tolist(), exp.astype(int).tolist()), None)


def run(tier, seed, R):
    rng = random.Random(seed)
    R.rule = ("(a) rectangle/ellipse (rotated: %d angles at, within 1e-12..5e-4 of, and far from multiples of pi/2, incl. large turn counts; elongated shapes), circle, annulus, "
              "x/y range on jittered point grids vs independent geometric formulas, points closer than 1e-6*scale to the boundary excluded; (b) 5 polygons (open, closed, concave) vs "
              "even-odd ray casting, move_to (once/twice) and rotate_to equivariance; (c) per region kind: independence of array shape, memory order, strides and broadcast views, copy and "
              "save/restore, independence of a copy from the original under move / rotate / vertex edits (both directions), move_to equivariance, to_polygon within discretisation error; (d) Projected3dROI.contains3d with 1.1e6 points (2 chunks) and 6 projection matrices "
              "(incl. w != 1 and perspective) vs explicit projection; (e) categorical regions. non-trivial = distinct (region, parameters, transformation) case" % len(ANGLES))
    R.exhaustive = False
    closed_form(R, rng, tier)
    polygons(R, rng, tier)
    equivariance(R, rng, tier)
    projected3d(R, rng, tier)
    rotate_by_sequences(R, rng, tier)
    categorical(R)
    for k in list(R.parts):
        pass
    R.nontrivial |= {('case', i) for i in range(0)}
    R.samples.append({"region": "RectangularROI(-5000, 5000, -1, 1, theta=41*pi/2+5e-4) on a jittered 21x21 grid vs R(-theta)(p-c) in the box"})
