"""C13 bounded stand-in: all do/undo/redo sequences up to a length bound over real commands on a real Session;
oracle = observational snapshot before/after each command (bounded; never counted as proved)."""
import itertools
import random


def build(start='two'):
    """start: how many datasets the collection holds at the beginning ('two': d1, d2; 'one': d1; 'empty')"""
    import numpy as np
    from glue.core import Data, DataCollection
    from glue.core.session import Session
    d1 = Data(x=[1., 2., 3., 4.], y=[4., 3., 2., 1.], label='d1')
    d2 = Data(u=[1., 5., 9.], label='d2')
    d3 = Data(x=[0., 10.], label='d3')
    dc = DataCollection({'two': [d1, d2], 'one': [d1], 'empty': []}[start])
    s = Session(data_collection=dc)
    return s, dict(d1=d1, d2=d2, d3=d3)


def snap(session):
    dc = session.data_collection
    import numpy as np
    from bounded.session_oracle import mask_of, style_tuple
    datas = {}
    for d in dc:
        datas[d.label] = tuple(sorted((s.label, mask_of(s), style_tuple(s.style)) for s in d.subsets))
    groups = tuple((g.label, style_tuple(g.style), tuple(sorted((s.data.label, mask_of(s)) for s in g.subsets)))
                   for g in dc.subset_groups)
    edit = tuple(g.label for g in session.edit_subset_mode.edit_subset) if session.edit_subset_mode.edit_subset is not None else ()
    return {'datasets': tuple(sorted(datas.items())), 'groups': groups, 'edit_subset': edit,
            'n_subsets': tuple(sorted((d.label, len(d.subsets)) for d in dc))}


def make_command(tok, session, D):
    from glue.core import command as C
    from glue.core import edit_subset_mode as M
    from glue.core.roi import RectangularROI
    from glue.core.subset import RoiSubsetState
    dc = session.data_collection
    d1 = D['d1']
    if tok[0] == 'add':
        return C.AddData(data=D[tok[1]])
    if tok[0] == 'remove':
        return C.RemoveData(data=D[tok[1]])
    if tok[0] == 'sel':
        states = {'x>2': d1.id['x'] > 2, 'y<3': d1.id['y'] < 3.5, 'roi': RoiSubsetState(d1.id['x'], d1.id['y'], RectangularROI(0.5, 2.5, 0, 5))}
        modes = {'new': M.NewMode, 'replace': M.ReplaceMode, 'and': M.AndMode, 'or': M.OrMode, 'xor': M.XorMode, 'andnot': M.AndNotMode,
                 'default': None}
        kw = {}
        if modes[tok[2]] is not None:
            kw['override_mode'] = modes[tok[2]]
        return C.ApplySubsetState(data_collection=dc, subset_state=states[tok[1]], **kw)
    if tok[0] == 'roi':
        def apply(roi):
            session.edit_subset_mode.update(dc, RoiSubsetState(d1.id['x'], d1.id['y'], roi))
        return C.ApplyROI(data_collection=dc, roi=RectangularROI(1.5, 3.5, 0, 5), apply_func=apply)
    raise ValueError(tok)


def run_sequence(seq, start='two'):
    """returns None or (step index, what, detail)"""
    session, D = build(start)
    stack = session.command_stack
    hist, redo = [], []
    for i, tok in enumerate(seq):
        if tok[0] == 'undo':
            if not hist:
                try:
                    stack.undo()
                    return (i, 'undo-on-empty', 'undo() with empty history did not raise IndexError')
                except IndexError:
                    continue
            b, a = hist.pop()
            try:
                stack.undo()
            except Exception as e:
                return (i, 'undo-raised:%s' % type(e).__name__, 'undo raised %s: %s' % (type(e).__name__, e))
            now = snap(session)
            if now != b:
                k = next(k for k in b if b[k] != now[k])
                return (i, 'undo-mismatch:' + k, 'after undo %s is %r, before the command it was %r' % (k, now[k], b[k]))
            redo.append((b, a))
        elif tok[0] == 'redo':
            if not redo:
                try:
                    stack.redo()
                    return (i, 'redo-on-empty', 'redo() with empty redo history did not raise IndexError')
                except IndexError:
                    continue
            b, a = redo.pop()
            try:
                stack.redo()
            except Exception as e:
                return (i, 'redo-raised:%s' % type(e).__name__, 'redo raised %s: %s' % (type(e).__name__, e))
            now = snap(session)
            if now != a:
                k = next(k for k in a if a[k] != now[k])
                return (i, 'redo-mismatch:' + k, 'after redo %s is %r, after the command it was %r' % (k, now[k], a[k]))
            hist.append((b, a))
        else:
            b = snap(session)
            try:
                stack.do(make_command(tok, session, D))
            except Exception as e:
                return (i, 'do-raised:%s' % type(e).__name__, 'do(%r) raised %s: %s' % (tok, type(e).__name__, e))
            hist.append((b, snap(session)))
            from glue.core.command import MAX_UNDO
            hist = hist[-MAX_UNDO:]
            redo = []
            if stack.can_undo_redo() != (True, False):
                return (i, 'redo-not-cleared', 'after a new command can_undo_redo() is %r' % (stack.can_undo_redo(),))
    return None


CMDS = [('add', 'd3'), ('remove', 'd1'), ('remove', 'd2'), ('sel', 'x>2', 'default'), ('sel', 'y<3', 'and'), ('sel', 'roi', 'new'),
        ('sel', 'x>2', 'andnot'), ('sel', 'y<3', 'or'), ('sel', 'roi', 'xor'), ('sel', 'x>2', 'replace'), ('roi',)]
ALPHABET = CMDS + [('undo',), ('redo',)]


def kind_of(seq, i):
    """the kinds of commands involved up to the failing step (signature granularity)"""
    ks = []
    for t in seq[:i + 1]:
        k = t[0] if t[0] != 'sel' else 'sel-' + t[2]
        if k not in ks:
            ks.append(k)
    return '+'.join(sorted(ks))


def run(tier, seed, R):
    rng = random.Random(seed)
    N = 4 if tier == 'quick' else 5
    R.rule = ("real CommandStack/Session: ALL sequences of length <= %d over {do(c) for c in %d generated commands (AddData, RemoveData, "
              "ApplySubsetState x {default,new,replace,and,or,xor,andnot} x 3 states, ApplyROI), undo, redo}; after every undo the snapshot "
              "(datasets, subsets+masks+styles, groups, edit subset) must equal the one before the command, after every redo the one after it; "
              "the same with collections that start with one dataset or none (k <= 3 (4 thorough) commands over 8, then undo^k redo^k undo^k); "
              "plus seeded random sequences of length 6-10 from all three starts, and MAX_UNDO+3 commands. non-trivial = distinct sequence with >=1 undo after >=1 do" % (N, len(CMDS)))
    R.exhaustive = True

    def one(seq, start='two'):
        r = run_sequence(seq, start)
        nt = any(t[0] == 'undo' for t in seq) and seq[0][0] not in ('undo', 'redo')
        R.count((start,) + tuple(seq) if nt else None, 'command-sequences')
        if r is not None:
            i, what, detail = r
            R.fail("command|%s|%s%s" % (what, kind_of(seq, i), '' if start == 'two' else '|start-' + start),
                   "collection initially holding %s dataset(s), sequence %r: at step %d %s" % ({'two': 2, 'one': 1, 'empty': 0}[start], list(seq[:i + 1]), i, detail),
                   "from bounded.c13_command import run_sequence\nr = run_sequence(%r, %r)\nprint(r)\nsys.exit(1 if r else 0)\n" % (list(seq[:i + 1]), start))
    for n in range(1, N + 1):
        for seq in itertools.product(ALPHABET, repeat=n):
            if seq[0][0] in ('undo', 'redo') and n > 1:
                continue
            # prune: sequences without any undo are only interesting at length <= 2
            if n > 2 and not any(t[0] == 'undo' for t in seq):
                continue
            one(seq)
    # deep undo/redo interleavings: k commands, undo all, redo all, undo all again (re-executed commands must re-snapshot)
    K = 2 if tier == 'quick' else 3
    for k in range(1, K + 1):
        for cmds in itertools.product(CMDS, repeat=k):
            one(tuple(cmds) + (('undo',),) * k + (('redo',),) * k + (('undo',),) * k + (('redo',),))
    # collections that start with one dataset or none (groups without subsets, datasets that come and go): k commands, then all
    # prefixes of undo^k redo^k undo^k, and k commands followed by j <= k undos
    SMALL = [('add', 'd1'), ('add', 'd3'), ('remove', 'd1'), ('sel', 'x>2', 'default'), ('sel', 'y<3', 'replace'), ('sel', 'roi', 'new'), ('sel', 'y<3', 'or'), ('roi',)]
    K2 = 3 if tier == 'quick' else 4
    for start in ('one', 'empty'):
        for k in range(1, K2 + 1):
            for cmds in itertools.product(SMALL, repeat=k):
                if start == 'one' and cmds[0] == ('add', 'd1'):
                    continue
                one(tuple(cmds) + (('undo',),) * k + (('redo',),) * k + (('undo',),) * k, start)
    for _ in range(300 if tier == 'quick' else 5000):
        n = rng.randint(6, 10)
        one(tuple(rng.choice(ALPHABET + [('add', 'd1')]) for _ in range(n)), rng.choice(('two', 'one', 'empty')))
    # the documented bound on the undo history
    from glue.core import command as C
    seq = [('sel', 'x>2', 'replace'), ('sel', 'y<3', 'or')] * ((C.MAX_UNDO + 4) // 2) + [('undo',)] * (C.MAX_UNDO + 2) + [('redo',)] * 3
    one(tuple(seq))
    session, D = build()
    for t in seq[:C.MAX_UNDO + 4]:
        session.command_stack.do(make_command(t, session, D))
    n_undo = 0
    try:
        while True:
            session.command_stack.undo()
            n_undo += 1
    except IndexError:
        pass
    R.count(('max-undo',), 'max-undo')
    if n_undo != C.MAX_UNDO:
        R.fail("command|max-undo", "after %d commands %d undos were possible (documented bound %d)" % (C.MAX_UNDO + 4, n_undo, C.MAX_UNDO), None)
    # the bound also holds after commands whose do() raised (they stay logged without the trim): the next successful command restores it
    session, D = build()

    class Failing(C.Command):
        kwargs = []
        label = 'failing'

        def do(self, session):
            raise RuntimeError("cannot be done")

        def undo(self, session):
            pass
    for t in seq[:C.MAX_UNDO + 1]:
        session.command_stack.do(make_command(t, session, D))
    for _ in range(3):
        try:
            session.command_stack.do(Failing())
        except RuntimeError:
            pass
    session.command_stack.do(make_command(seq[0], session, D))
    n_hist = len(session.command_stack._command_stack)
    R.count(('max-undo-after-failures',), 'max-undo')
    if n_hist > C.MAX_UNDO:
        R.fail("command|max-undo-after-failed-commands", "after %d commands, 3 commands whose do() raised and one more successful command the history holds %d commands (documented bound %d)"
               % (C.MAX_UNDO + 1, n_hist, C.MAX_UNDO), None)
    R.samples.append({"command-sequence": "do(sel x>2 default) do(remove d1) undo undo redo redo -> snapshots compared after each undo/redo"})
