"""C16 bounded stand-in: compute_fixed_resolution_buffer against nearest-pixel resampling computed here from the known pixel maps,
and cached against uncached requests over random request histories sharing one cache id.

Collection: a reference cube R (4x5x6) and sources linked to its pixel frame by links whose functions are written here, so the map
ref pixel -> source pixel is known: R itself; S_same (LinkSame on every axis); S_off (smaller cube, per-axis offset and scale, lies
partly outside); S_perm (axes permuted); S_2d (a 2-d image living in axes 1,2 of R: axis 0 is irrelevant -> broadcast); S_coupled
(source axis fed by two reference axes); S_world (both sides carry affine coordinates, linked world to world); S_unlinked (no link:
IncompatibleAttribute); S_half (only one axis linked).
Requests: per reference axis a scalar (inside, outside, non-integer) or a range (inside, partly outside, wholly outside, single step,
reversed); values of an attribute or membership of a selection (on source values, source pixels, reference pixels, composite).
Samples whose source coordinate is within 1e-6 of a half-integer are not compared (nearest pixel not determined).
"""
import itertools
import random
import warnings

import numpy as np

R_SHAPE = (4, 5, 6)


def _f(off, scale):
    def fwd(x):
        return (x - off) / scale

    def bwd(y):
        return y * scale + off
    return fwd, bwd


def build():
    """-> (dc, ref, sources: name -> (data, map(ref pixel arrays) -> list of source pixel arrays or None if not derivable))"""
    from glue.core import Data, DataCollection
    from glue.core.component_link import ComponentLink
    from glue.core.link_helpers import LinkSame
    from glue.core.coordinates import AffineCoordinates
    rng = np.random.RandomState(5)
    # a sheared (non-symmetric) frame: world x reads pixel y as well, not the other way round
    aff_r = np.array([[2.0, 0.4, 0, 1.0], [0, 1.5, 0, -2.0], [0, 0, 0.5, 0.25], [0, 0, 0, 1]])
    R = Data(label='R', v=rng.uniform(-5, 5, R_SHAPE).round(2), u=rng.uniform(10, 20, R_SHAPE).round(2), coords=AffineCoordinates(aff_r))
    dc = DataCollection([R])
    src = {'R': (R, lambda p: list(p))}

    def add(name, shape, coords=None):
        d = Data(label=name, v=rng.uniform(-5, 5, shape).round(2), u=rng.uniform(10, 20, shape).round(2), coords=coords)
        dc.append(d)
        return d

    # identity
    S = add('S_same', R_SHAPE)
    for a, b in zip(R.pixel_component_ids, S.pixel_component_ids):
        dc.add_link(LinkSame(a, b))
    src['S_same'] = (S, lambda p: list(p))

    # offset / scale per axis: source lies partly outside the reference
    S = add('S_off', (3, 4, 3))
    offs, scales = (1.25, -0.75, 2.25), (1.0, 1.5, 0.75)
    for i in range(3):
        fwd, bwd = _f(offs[i], scales[i])
        dc.add_link(ComponentLink([R.pixel_component_ids[i]], S.pixel_component_ids[i], using=fwd, inverse=bwd))
        dc.add_link(ComponentLink([S.pixel_component_ids[i]], R.pixel_component_ids[i], using=bwd, inverse=fwd))
    src['S_off'] = (S, lambda p: [(p[i] - offs[i]) / scales[i] for i in range(3)])

    # permuted axes
    S = add('S_perm', (6, 4, 5))
    perm = (2, 0, 1)         # source axis i follows reference axis perm[i]
    for i in range(3):
        dc.add_link(LinkSame(R.pixel_component_ids[perm[i]], S.pixel_component_ids[i]))
    src['S_perm'] = (S, lambda p: [p[perm[i]] for i in range(3)])

    # 2-d image in axes (1, 2) of the reference, shifted
    S = add('S_2d', (5, 6))
    f1, b1 = _f(0.25, 1.0)
    dc.add_link(ComponentLink([R.pixel_component_ids[1]], S.pixel_component_ids[0], using=f1, inverse=b1))
    dc.add_link(ComponentLink([S.pixel_component_ids[0]], R.pixel_component_ids[1], using=b1, inverse=f1))
    dc.add_link(LinkSame(R.pixel_component_ids[2], S.pixel_component_ids[1]))
    src['S_2d'] = (S, lambda p: [p[1] - 0.25, p[2]])

    # source axis fed by two reference axes
    S = add('S_coupled', (7, 6))
    dc.add_link(ComponentLink([R.pixel_component_ids[0], R.pixel_component_ids[1]], S.pixel_component_ids[0], using=_sum_half))
    dc.add_link(LinkSame(R.pixel_component_ids[2], S.pixel_component_ids[1]))
    src['S_coupled'] = (S, lambda p: [p[0] + 0.5 * p[1], p[2]])

    # world-to-world: both carry affine coordinates
    aff_s = np.array([[1.0, 0, 0, 2.0], [0, 3.0, 0, -1.0], [0, 0, 0.5, 1.0], [0, 0, 0, 1]])
    S = add('S_world', (5, 3, 7), coords=AffineCoordinates(aff_s))
    for a, b in zip(R.world_component_ids, S.world_component_ids):
        dc.add_link(LinkSame(a, b))

    def world_map(p):
        # numpy order -> xyz order, through both affine maps
        xyz = p[::-1]
        w = [aff_r[i, 0] * xyz[0] + aff_r[i, 1] * xyz[1] + aff_r[i, 2] * xyz[2] + aff_r[i, 3] for i in range(3)]
        inv = np.linalg.inv(aff_s)
        q = [inv[i, 0] * w[0] + inv[i, 1] * w[1] + inv[i, 2] * w[2] + inv[i, 3] for i in range(3)]
        return q[::-1]
    src['S_world'] = (S, world_map)

    S = add('S_unlinked', (3, 3, 3))
    src['S_unlinked'] = (S, None)
    S = add('S_half', (4, 5))
    dc.add_link(LinkSame(R.pixel_component_ids[0], S.pixel_component_ids[0]))
    src['S_half'] = (S, None)
    return dc, R, src


def _sum_half(a, b):
    return a + 0.5 * b


def selections(R, S):
    from glue.core.subset import RangeSubsetState
    out = {'src-values': S.id['v'] > 0.5, 'src-pixel': RangeSubsetState(1, 2, S.pixel_component_ids[-1]),
           'composite': (S.id['v'] > -1) & ~(S.id['v'] > 3)}
    return out


def expected_mask_full(S, sname):
    v = np.asarray(S['v'])
    if sname == 'src-values':
        return v > 0.5
    if sname == 'composite':
        return (v > -1) & ~(v > 3)
    idx = np.indices(S.shape)[-1]
    return (idx >= 1) & (idx <= 2)


def bound_options(n):
    return [0, n - 1, 1.25, -3, n + 2.0, (0, n - 1, n), (-2.3, n + 1.4, 7), (0.25, n - 1.2, 3), (n + 3, n + 8, 4), (1, 1, 1), (n - 1, 0, n), (-0.4, 0.4, 2)]


def sample_grid(bounds):
    pts = [np.linspace(*b) if isinstance(b, tuple) else np.array(float(b)) for b in bounds]
    return np.meshgrid(*pts, indexing='ij', copy=False)


def reference(S, fmap, bounds, what, sname):
    """-> (expected array, ambiguous mask) in the shape of the ranged bounds"""
    grids = sample_grid(bounds)
    q = fmap([np.asarray(g, dtype=float) for g in grids])
    shape = grids[0].shape
    q = [np.broadcast_to(np.asarray(x, dtype=float), shape) for x in q]
    amb = np.zeros(shape, bool)
    idx = []
    inside = np.ones(shape, bool)
    for ax, x in enumerate(q):
        frac = np.abs(x - np.floor(x) - 0.5)
        amb |= frac < 1e-6
        k = np.round(x).astype(int)
        inside &= (k >= 0) & (k < S.shape[ax])
        idx.append(np.clip(k, 0, S.shape[ax] - 1))
    if what == 'values':
        full = np.asarray(S['v'], dtype=float)
        out = np.where(inside, full[tuple(idx)], np.nan)
    else:
        full = expected_mask_full(S, sname)
        out = np.where(inside, full[tuple(idx)], False)
    sl = tuple(slice(None) if isinstance(b, tuple) else 0 for b in bounds)
    return out[sl], amb[sl]


def same(a, b, skip=None):
    a, b = np.asarray(a), np.asarray(b)
    if a.shape != b.shape:
        return False
    if a.dtype.kind == 'b' or b.dtype.kind == 'b':
        eq = a.astype(bool) == b.astype(bool)
    else:
        a, b = a.astype(float), b.astype(float)
        eq = (a == b) | (np.isnan(a) & np.isnan(b))
    if skip is not None:
        eq = eq | skip
    return bool(np.all(eq))


def bound_kind(b, n):
    if not isinstance(b, tuple):
        return 'scalar-outside' if (b < -0.5 or b > n - 0.5) else ('scalar-fractional' if float(b) != int(b) else 'scalar')
    lo, hi = min(b[0], b[1]), max(b[0], b[1])
    if hi < -0.5 or lo > n - 0.5:
        return 'range-outside'
    if b[0] > b[1]:
        return 'range-reversed'
    if lo < -0.5 or hi > n - 0.5:
        return 'range-partly-outside'
    return 'range-single' if b[2] == 1 else 'range'


def call(data, bounds, target, what, state_or_cid, cache_id=None, broadcast=True):
    from glue.core.fixed_resolution_buffer import compute_fixed_resolution_buffer
    kw = dict(target_data=target, broadcast=broadcast, cache_id=cache_id)
    if what == 'values':
        kw['target_cid'] = state_or_cid
    else:
        kw['subset_state'] = state_or_cid
    with warnings.catch_warnings():
        warnings.simplefilter('ignore')
        try:
            return ('ok', compute_fixed_resolution_buffer(data, list(bounds), **kw))
        except Exception as e:
            return ('raised', type(e).__name__)


def run_definition(tier, seed, R_):
    rng = random.Random(seed)
    dc, R, src = build()
    n_req = 60 if tier == 'quick' else 400
    for name, (S, fmap) in src.items():
        if fmap is None:
            continue
        sels = selections(R, S)
        opts = [bound_options(n) for n in R.shape]
        combos = list(itertools.product(*opts))
        rng.shuffle(combos)
        for bounds in combos[:n_req]:
            if all(not isinstance(b, tuple) for b in bounds):
                pass
            for what, sname in (('values', None),) + tuple(('mask', s) for s in sels):
                exp, amb = reference(S, fmap, bounds, what, sname)
                r = call(S, bounds, R, what, S.id['v'] if what == 'values' else sels[sname])
                R_.count((name, bounds, what, sname) if np.size(exp) > 0 else None, 'buffer-vs-definition')
                err = None
                if r[0] == 'raised':
                    err = ('exception:%s' % r[1], "raised %s" % r[1])
                elif np.shape(r[1]) != np.shape(exp):
                    err = ('shape', "has shape %r, expected %r" % (np.shape(r[1]), np.shape(exp)))
                elif not same(r[1], exp, amb):
                    bad = np.argwhere(~((np.asarray(r[1], dtype=float) == np.asarray(exp, dtype=float)) | (np.isnan(np.asarray(r[1], dtype=float)) & np.isnan(np.asarray(exp, dtype=float))) | amb))
                    err = ('value', "differs from nearest-pixel resampling at %d of %d samples, first at index %s: buffer %s, definition %s"
                           % (len(bad), np.size(exp), bad[0].tolist() if len(bad) else '?', np.asarray(r[1])[tuple(bad[0])] if len(bad) else '?', np.asarray(exp)[tuple(bad[0])] if len(bad) else '?'))
                if err:
                    kinds = sorted(set(bound_kind(b, n) for b, n in zip(bounds, R.shape)))
                    R_.fail("frb|definition|%s|%s|%s|%s" % (name, what, '+'.join(kinds), err[0]),
                            "source %s in the frame of R, bounds %r, %s%s: %s" % (name, bounds, what, '' if sname is None else ' of selection ' + sname, err[1]),
                            "from bounded.c16_frb import replay_definition\nsys.exit(replay_definition(%r, %r, %r, %r))\n" % (name, bounds, what, sname))


def replay_definition(name, bounds, what, sname):
    dc, R, src = build()
    S, fmap = src[name]
    sels = selections(R, S)
    exp, amb = reference(S, fmap, bounds, what, sname)
    r = call(S, bounds, R, what, S.id['v'] if what == 'values' else sels[sname])
    print("definition:", np.asarray(exp).tolist())
    print("buffer    :", r[0], np.asarray(r[1]).tolist() if r[0] == 'ok' else r[1])
    return 0 if (r[0] == 'ok' and np.shape(r[1]) == np.shape(exp) and same(r[1], exp, amb)) else 1


WHATS = [('values', 'v'), ('values', 'u'), ('mask', 'src-values'), ('mask', 'src-pixel'), ('mask', 'composite')]


def random_request(rng, R, src, sticky=None):
    """a request; with `sticky` most parts are kept from the previous request (the histories an image viewer produces)"""
    names = list(src)
    if sticky is not None and rng.random() < 0.75:
        name, tname, bounds, what, sname, broadcast = sticky
        roll = rng.random()
        bounds = list(bounds)
        if roll < 0.45:
            # move a scalar bound (stepping through slices), possibly from outside to inside the source
            sc = [i for i, b in enumerate(bounds) if not isinstance(b, tuple)]
            if sc:
                i = rng.choice(sc)
                bounds[i] = rng.choice([0, 1, 2, 3, -2, 7, 1.25])
        elif roll < 0.6:
            what, sname = rng.choice(WHATS)
        elif roll < 0.72:
            name = rng.choice(names)
        elif roll < 0.8:
            tname = rng.choice([t for t in ('R', 'S_same', 'S_off') if t != tname])
        elif roll < 0.9:
            i = rng.randrange(len(bounds))
            bounds[i] = rng.choice(bound_options(R.shape[i] if tname == 'R' else 3))
        else:
            broadcast = not broadcast
        return (name, tname, tuple(bounds), what, sname, broadcast)
    name = rng.choice(names)
    tname = 'R' if rng.random() < 0.85 else rng.choice(['S_same', 'S_off'])
    tshape = src[tname][0].shape
    bounds = []
    for n in tshape:
        bounds.append(rng.choice(bound_options(n)))
    what, sname = rng.choice(WHATS)
    return (name, tname, tuple(bounds), what, sname, rng.random() < 0.85)


def run_histories(tier, seed, R_):
    from glue.core import fixed_resolution_buffer as FRB
    rng = random.Random(seed + 7)
    dc, R, src = build()
    n_hist = 150 if tier == 'quick' else 1200
    for h in range(n_hist):
        cache_id = 'verif-history-%d' % h
        length = rng.randrange(3, 10)
        prev = None
        log = []
        for step in range(length):
            req = random_request(rng, R, src, prev)
            prev = req
            name, tname, bounds, what, sname, broadcast = req
            S, T = src[name][0], src[tname][0]
            sels = selections(R, S)
            arg = S.id[sname or 'v'] if what == 'values' else sels[sname]
            fresh = call(S, bounds, T, what, arg, None, broadcast)
            cached = call(S, bounds, T, what, arg, cache_id, broadcast)
            log.append(req)
            ok = fresh[0] == cached[0] and (fresh[1] == cached[1] if fresh[0] == 'raised' else same(cached[1], fresh[1]))
            R_.count((h, step) if fresh[0] == 'ok' and np.size(fresh[1]) > 0 else None, 'cached-vs-uncached-histories')
            if not ok:
                def short(r):
                    return r[1] if r[0] == 'raised' else "array of shape %r" % (np.shape(r[1]),)
                n_diff = ''
                if fresh[0] == cached[0] == 'ok' and np.shape(fresh[1]) == np.shape(cached[1]):
                    n_diff = " (%d of %d samples differ)" % (int(np.sum(~((np.asarray(fresh[1], dtype=float) == np.asarray(cached[1], dtype=float)) |
                                                                           (np.isnan(np.asarray(fresh[1], dtype=float)) & np.isnan(np.asarray(cached[1], dtype=float)))))), np.size(fresh[1]))
                kind = 'exception-only-with-cache' if cached[0] == 'raised' and fresh[0] == 'ok' else ('exception-only-without-cache' if fresh[0] == 'raised' and cached[0] == 'ok' else
                                                                                                     ('shape' if fresh[0] == 'ok' and cached[0] == 'ok' and np.shape(fresh[1]) != np.shape(cached[1]) else 'value'))
                R_.fail("frb|cache|%s" % kind,
                        "after the requests %r under one cache id, request %r gives %s with the cache id and %s without%s" % (log[:-1], req, short(cached), short(fresh), n_diff),
                        "from bounded.c16_frb import replay_history\nsys.exit(replay_history(%r))\n" % (log,))
                break
        FRB.ARRAY_CACHE.pop(cache_id, None)
        FRB.PIXEL_CACHE.pop(cache_id, None)


def run_reused_bounds_list(tier, seed, R_, verbose=False):
    """the caller keeps ONE bounds list and edits it in place between requests under one cache id (stepping a slice, replacing a range)"""
    from glue.core.fixed_resolution_buffer import compute_fixed_resolution_buffer
    from glue.core import fixed_resolution_buffer as FRB
    dc, R, src = build()
    bad = 0
    for name in ('R', 'S_same', 'S_perm', 'S_off'):
        if name not in src:
            continue
        S = src[name][0]
        sels = selections(R, S)
        for what, arg in (('values', S.id['v']),) + tuple(('mask', sels[k]) for k in list(sels)[:1]):
            cache_id = 'verif-reused-list-%s-%s' % (name, what)
            bounds = [0] + [(-0.5, n - 0.5, n) for n in R.shape[1:]]
            edits = [(0, 1), (0, 2), (1, (0.5, R.shape[1] - 1.5, 2)), (0, 0), (2, (-0.5, 1.5, 2)), (0, 3)]
            for step, (i, new) in enumerate([(None, None)] + edits):
                if i is not None:
                    bounds[i] = new              # in place: the same list object is passed again
                kw = dict(target_data=R, cache_id=cache_id)
                kw['target_cid' if what == 'values' else 'subset_state'] = arg
                kw0 = dict(kw, cache_id=None)
                with warnings.catch_warnings():
                    warnings.simplefilter('ignore')
                    cached = compute_fixed_resolution_buffer(S, bounds, **kw)
                    fresh = compute_fixed_resolution_buffer(S, list(bounds), **kw0)
                if R_ is not None:
                    R_.count(('reused-list', name, what, step), 'cached-vs-uncached-reused-bounds-list')
                ok = np.shape(cached) == np.shape(fresh) and same(cached, fresh)
                if verbose:
                    print(name, what, step, list(bounds), 'agree' if ok else 'DIFFER')
                if not ok:
                    bad += 1
                    if R_ is not None:
                        R_.fail("frb|cache|reused-bounds-list", "source %s, %s: one bounds list edited in place between requests under one cache id; at step %d (bounds %r) the cached request differs from the uncached one"
                                % (name, what, step, list(bounds)), "from bounded.c16_frb import run_reused_bounds_list\nsys.exit(run_reused_bounds_list(%r, %r, None, True))\n" % (tier, seed))
                    break
            FRB.ARRAY_CACHE.pop(cache_id, None)
            FRB.PIXEL_CACHE.pop(cache_id, None)
    return 1 if bad else 0


def run_replaced_selections(tier, seed, R_, verbose=False):
    """a selection is replaced by a new, different one (the old object is dropped by its only holder) and requested under the same cache id"""
    import gc
    from glue.core import fixed_resolution_buffer as FRB
    from glue.core.subset import RangeSubsetState
    dc, R, src = build()
    S = src['S_off'][0] if 'S_off' in src else [v[0] for k, v in src.items() if v[1] is not None][1]
    att = S.id['v']
    vals = np.sort(np.unique(np.asarray(S['v'], dtype=float)))
    cuts = [vals[len(vals) // 4], vals[len(vals) // 2], vals[3 * len(vals) // 4]]
    bounds = [(-0.5, n - 0.5, n) for n in R.shape]
    cache_id = 'verif-replaced-selection'
    bad = 0
    for attempt in range(40 if tier == 'quick' else 400):
        lo = attempt % 3
        s1 = RangeSubsetState(vals[0], cuts[lo], att)
        call(S, bounds, R, 'mask', s1, cache_id)
        old_id = id(s1)
        del s1
        gc.collect()
        # the new selection is whichever of the next few allocated states lands where the dropped one was (the allocator decides; a viewer has no say in it)
        pool = []
        for _ in range(64):
            pool.append(RangeSubsetState(cuts[lo], vals[-1], att))
            if id(pool[-1]) == old_id:
                break
        s2 = pool[-1]
        cached = call(S, bounds, R, 'mask', s2, cache_id)
        fresh = call(S, bounds, R, 'mask', s2, None)
        if R_ is not None:
            R_.count(('replaced', attempt), 'cached-vs-uncached-replaced-selection')
        ok = fresh[0] == cached[0] and (fresh[1] == cached[1] if fresh[0] == 'raised' else same(cached[1], fresh[1]))
        if verbose:
            print('attempt', attempt, 'agree' if ok else 'DIFFER')
        if not ok:
            bad += 1
            if R_ is not None:
                R_.fail("frb|cache|replaced-selection",
                        "mask of a new selection requested under the cache id under which the mask of a dropped, different selection had been requested (attempt %d): differs from the uncached mask" % attempt,
                        "from bounded.c16_frb import run_replaced_selections\nsys.exit(run_replaced_selections(%r, %r, None, True))\n" % (tier, seed))
            break
    FRB.ARRAY_CACHE.pop(cache_id, None)
    FRB.PIXEL_CACHE.pop(cache_id, None)
    return 1 if bad else 0


def replay_history(log):
    from glue.core import fixed_resolution_buffer as FRB
    dc, R, src = build()
    cache_id = 'verif-replay'
    FRB.ARRAY_CACHE.pop(cache_id, None)
    FRB.PIXEL_CACHE.pop(cache_id, None)
    bad = 0
    for req in log:
        name, tname, bounds, what, sname, broadcast = req
        S, T = src[name][0], src[tname][0]
        sels = selections(R, S)
        arg = S.id[sname or 'v'] if what == 'values' else sels[sname]
        fresh = call(S, bounds, T, what, arg, None, broadcast)
        cached = call(S, bounds, T, what, arg, cache_id, broadcast)
        ok = fresh[0] == cached[0] and (fresh[1] == cached[1] if fresh[0] == 'raised' else same(cached[1], fresh[1]))
        print(req, 'agree' if ok else 'DIFFER')
        bad += 0 if ok else 1
    return 1 if bad else 0


def run_viewer(tier, seed, R_):
    """what an image viewer shows: ImageLayerState.get_sliced_data / ImageSubsetLayerState.get_sliced_data against the same definition"""
    try:
        from glue.viewers.image.state import ImageViewerState, ImageLayerState, ImageSubsetLayerState
    except Exception as e:
        R_.notes.append("image viewer state not importable: %s" % e)
        return
    dc, R, src = build()
    for name in ('R', 'S_same', 'S_off', 'S_perm', 'S_2d'):
        S, fmap = src[name]
        vs = ImageViewerState()
        try:
            with warnings.catch_warnings():
                warnings.simplefilter('ignore')
                lr = ImageLayerState(viewer_state=vs, layer=R)
                vs.layers.append(lr)
                ls = lr if S is R else ImageLayerState(viewer_state=vs, layer=S)
                if S is not R:
                    vs.layers.append(ls)
                vs.reference_data = R
                lr.attribute = R.id['v']
                ls.attribute = S.id['v']
                vs.x_att = R.pixel_component_ids[2]
                vs.y_att = R.pixel_component_ids[1]
        except Exception as e:
            R_.fail("frb|viewer|%s|setup:%s" % (name, type(e).__name__), "setting up an image viewer state for %s raised %s: %s" % (name, type(e).__name__, e), None)
            continue
        for sl in (3, 0, 1, 2, 3, 1):
            try:
                with warnings.catch_warnings():
                    warnings.simplefilter('ignore')
                    vs.slices = (sl, 0, 0)
                    for bnds in (None, [(0, R.shape[1] - 1, R.shape[1]), (0, R.shape[2] - 1, R.shape[2])], [(-1.3, 5.2, 6), (0.3, 4.7, 4)]):
                        got = ls.get_sliced_data(bounds=bnds)
                        b = (sl,) + (tuple(bnds) if bnds is not None else ((0, R.shape[1] - 1, R.shape[1]), (0, R.shape[2] - 1, R.shape[2])))
                        exp, amb = reference(S, fmap, b, 'values', None)
                        R_.count((name, sl, repr(bnds)), 'image-layer-plane')
                        if np.shape(got) != np.shape(exp) or not same(got, exp, amb):
                            R_.fail("frb|viewer|%s|%s" % (name, 'shape' if np.shape(got) != np.shape(exp) else 'value'),
                                    "image layer of %s on slice %d of R, bounds %r: the plane shown differs from nearest-pixel resampling (shape %r vs %r)" % (name, sl, bnds, np.shape(got), np.shape(exp)), None)
            except Exception as e:
                R_.fail("frb|viewer|%s|exception:%s" % (name, type(e).__name__), "image layer of %s on slice %d raised %s: %s" % (name, sl, type(e).__name__, e), None)
                break


def run(tier, seed, R):
    R.rule = ("reference cube R (4x5x6, affine coordinates) and 9 sources (itself, identical frame, offset+scaled smaller cube, permuted axes, 2-d image in two of the axes, axis fed by two reference axes, "
              "world-to-world linked affine frames, unlinked, half-linked). Definition: random bounds triples drawn from 12 options per axis (scalars inside/outside/fractional, ranges inside / partly / "
              "wholly outside / single step / reversed) x values and 3 selections vs nearest-pixel resampling through the known pixel map (samples within 1e-6 of a half pixel not compared). Cache: random "
              "request histories (3-9 requests, viewer-like: 75% of the requests change one thing - a scalar slice, the attribute/selection, the source, one bound, broadcast) under one cache id, every "
              "request compared with the same request without cache id (value, shape or exception); 40 (thorough 400) rounds of a selection dropped and replaced by a new, different one under one cache id. Image layer planes for 5 sources x every slice. non-trivial = request with a non-empty result")
    R.exhaustive = False
    run_definition(tier, seed, R)
    run_histories(tier, seed, R)
    run_replaced_selections(tier, seed, R)
    run_reused_bounds_list(tier, seed, R)
    run_viewer(tier, seed, R)
    R.samples.append({"case": "S_off (3x4x3 cube offset inside R), bounds (7, (-2.3, 6.4, 7), (0.25, 4.8, 3)) then scalar moved to 2 under the same cache id: cached == uncached == resampled values"})
