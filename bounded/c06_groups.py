"""C06 bounded stand-in: the well-formedness predicate WF (one subset per (dataset, group), groups list exactly those,
members share selection/label/style, removed datasets and groups keep no live membership) evaluated natively on a real
DataCollection after every step of every operation sequence up to a length bound (bounded; never counted as proved)."""
import itertools
import random

import numpy as np


def wf(dc, removed_data=(), removed_groups=()):
    """returns a list of violated clauses (empty = well formed)"""
    from glue.core.subset_group import GroupedSubset
    from glue.core.message import DataCollectionAddMessage, DataCollectionDeleteMessage
    bad = []
    data = list(dc._data)
    groups = list(dc._subset_groups)
    if len(set(map(id, data))) != len(data):
        bad.append("duplicate dataset in the collection")
    if len(set(map(id, groups))) != len(groups):
        bad.append("duplicate subset group in the collection")
    for d in data:
        subs = list(d.subsets)
        if len(set(map(id, subs))) != len(subs):
            bad.append("dataset %s lists a subset twice" % d.label)
        for g in groups:
            n = sum(1 for s in subs if getattr(s, 'group', None) is g)
            if n != 1:
                bad.append("dataset %s has %d subsets for group %s (expected exactly 1)" % (d.label, n, g.label))
        for s in subs:
            if isinstance(s, GroupedSubset) and not any(s.group is g for g in groups):
                bad.append("dataset %s carries a subset of a group that is not in the collection (%s)" % (d.label, s.group.label))
            if s.data is not d:
                bad.append("a subset listed by dataset %s points to dataset %s" % (d.label, getattr(s.data, 'label', None)))
    for g in groups:
        listed = list(g.subsets)
        expected = [s for d in data for s in d.subsets if getattr(s, 'group', None) is g]
        if len(listed) != len(set(map(id, listed))):
            bad.append("group %s lists a subset twice" % g.label)
        if set(map(id, listed)) != set(map(id, expected)):
            bad.append("group %s lists %d subsets (datasets %s) but the member datasets carry %d for it"
                       % (g.label, len(listed), sorted(getattr(s.data, 'label', '?') for s in listed), len(expected)))
        for s in listed:
            if s.subset_state is not g.subset_state:
                bad.append("a member of group %s does not share its selection" % g.label)
            if s.label != g.label:
                bad.append("a member of group %s has label %r, the group %r" % (g.label, s.label, g.label))
            if s.style is not g.style and s.style != g.style:
                bad.append("a member of group %s does not share its style" % g.label)
        if dc.hub is not None and not (dc.hub.is_subscribed(g, DataCollectionAddMessage) and dc.hub.is_subscribed(g, DataCollectionDeleteMessage)):
            bad.append("live group %s is not subscribed to collection add/delete messages" % g.label)
    for d in removed_data:
        if any(d is x for x in data):
            continue
        for s in d.subsets:
            if any(getattr(s, 'group', None) is g for g in groups):
                bad.append("removed dataset %s still carries a subset of live group %s" % (d.label, s.group.label))
        for g in groups:
            if any(s.data is d for s in g.subsets):
                bad.append("live group %s still lists a subset of removed dataset %s" % (g.label, d.label))
    for g in removed_groups:
        if any(g is x for x in groups):
            continue
        for s in g.subsets:
            if any(s.data is d for d in data) and any(s is x for x in s.data.subsets):
                bad.append("removed group %s still has a subset attached to member dataset %s" % (g.label, s.data.label))
        if dc.hub is not None and dc.hub.is_subscribed(g, DataCollectionAddMessage):
            bad.append("removed group %s is still subscribed to collection messages" % g.label)
    return bad


class World:
    def __init__(self):
        from glue.core import Data, DataCollection
        from glue.core.session import Session
        self.D = {n: Data(x=np.arange(4.) + i, y=np.arange(4.)[::-1] * (i + 1), label=n) for i, n in enumerate(('d1', 'd2', 'd3'))}
        self.cx, self.cy = self.D['d1'].id['x'], self.D['d1'].id['y']
        self.dc = DataCollection([self.D['d1'], self.D['d2']])
        self.session = Session(data_collection=self.dc)
        self.removed_data, self.removed_groups = [], []
        self.all_groups = []
        self.merged = 0

    def group(self, k):
        gs = self.dc.subset_groups
        return gs[k] if k < len(gs) else None

    def do(self, op):
        from glue.core import command as C
        dc, D = self.dc, self.D
        k = op[0]
        if k == 'append':
            dc.append(D[op[1]])
        elif k == 'remove':
            d = D[op[1]]
            if d in dc:
                self.removed_data.append(d)
            dc.remove(d)
        elif k == 'newgroup':
            # every group is given the same label (groups may share one; a grouped subset shows its group's label)
            g = dc.new_subset_group(label='selection', subset_state=self.cx > op[1])
            self.all_groups.append(g)
        elif k == 'rmgroup':
            g = self.group(op[1])
            if g is not None:
                self.removed_groups.append(g)
                dc.remove_subset_group(g)
        elif k == 'setstate':
            g = self.group(op[1])
            if g is not None:
                g.subset_state = self.cy < 2.5
        elif k == 'setlabel':
            g = self.group(op[1])
            if g is not None:
                g.label = 'renamed'
        elif k == 'setstyle':
            g = self.group(op[1])
            if g is not None:
                g.style.color = '#0000ff'
        elif k == 'merge':
            present = [d for d in (D['d1'], D['d2']) if d in dc]
            if len(present) == 2:
                self.merged += 1
                for d in present:
                    self.removed_data.append(d)
                m = dc.merge(*present, label='merged%d' % self.merged)
                self.D['merged'] = m
        elif k == 'clear':
            for d in list(dc):
                self.removed_data.append(d)
            dc.clear()
            if len(dc) != 0:
                raise AssertionError("clear() left %d datasets in the collection" % len(dc))
        elif k == 'cmd-add':
            self.session.command_stack.do(C.AddData(data=D[op[1]]))
        elif k == 'cmd-remove':
            d = D[op[1]]
            if d in dc:
                self.removed_data.append(d)
            self.session.command_stack.do(C.RemoveData(data=d))
        elif k == 'cmd-select':
            self.session.command_stack.do(C.ApplySubsetState(data_collection=dc, subset_state=self.cx > 1))
            self.all_groups.extend(g for g in dc.subset_groups if not any(g is x for x in self.all_groups))
        elif k == 'undo':
            try:
                self.session.command_stack.undo()
            except IndexError:
                pass
        elif k == 'redo':
            try:
                self.session.command_stack.redo()
            except IndexError:
                pass
        elif k == 'delay-append-newgroup':
            # a group is created while an outer delay block is open and a dataset is appended inside that block
            with dc.hub.delay_callbacks():
                g = dc.new_subset_group(label='selection', subset_state=self.cx > 0)
                self.all_groups.append(g)
                dc.append(D[op[1]])
        elif k == 'save-restore':
            from glue.core.state import GlueSerializer, GlueUnSerializer
            text = GlueSerializer(dc).dumps()
            dc2 = GlueUnSerializer.loads(text).object('__main__')
            self.dc = dc2
            from glue.core.session import Session
            self.session = Session(data_collection=dc2)
            byl = {d.label: d for d in dc2}
            for n in list(self.D):
                if self.D[n].label in byl:
                    self.D[n] = byl[self.D[n].label]
                else:
                    from glue.core import Data
                    old = self.D[n]
                    self.D[n] = Data(x=np.arange(4.), y=np.arange(4.), label=old.label + "'")
            self.removed_data, self.removed_groups = [], []
        else:
            raise ValueError(op)
        # datasets that came back are no longer "removed"
        self.removed_data = [d for d in self.removed_data if not any(d is x for x in self.dc)]
        self.removed_groups = [g for g in self.removed_groups if not any(g is x for x in self.dc.subset_groups)]


OPS = [('append', 'd3'), ('append', 'd1'), ('remove', 'd1'), ('remove', 'd2'), ('newgroup', 1), ('newgroup', 2), ('rmgroup', 0), ('rmgroup', 1),
       ('setstate', 0), ('setlabel', 0), ('setstyle', 1), ('merge',), ('clear',), ('cmd-add', 'd3'), ('cmd-remove', 'd1'), ('cmd-select',),
       ('undo',), ('redo',), ('delay-append-newgroup', 'd3'), ('save-restore',)]


def run_sequence(seq):
    w = World()
    for i, op in enumerate(seq):
        try:
            w.do(op)
        except AssertionError as e:
            return i, [str(e)]
        bad = wf(w.dc, w.removed_data, w.removed_groups)
        if bad:
            return i, bad
    return None


def clause_kind(msg):
    for key in ('has 2 subsets', 'has 0 subsets', 'subsets for group', 'not in the collection', 'lists', 'selection', 'label', 'style',
                'not subscribed', 'removed dataset', 'removed group', 'twice', 'duplicate', 'points to'):
        if key in msg:
            return key.replace(' ', '-')
    return 'other'


def run(tier, seed, R):
    rng = random.Random(seed)
    N = 3 if tier == 'quick' else 4
    R.rule = ("real DataCollection (3 datasets, session with command stack): ALL operation sequences of length <= %d over %d operations "
              "{append, remove, re-append, new group, remove group, set group state/label/style, merge, clear, AddData/RemoveData/ApplySubsetState commands, "
              "undo, redo, group creation + append inside an open delay block, save+restore}, WF evaluated after every step; seeded random sequences of length 5-9. "
              "non-trivial = distinct sequence that at some point has >=1 group and changes the set of datasets or groups afterwards" % (N, len(OPS)))
    R.exhaustive = True

    def one(seq):
        r = run_sequence(seq)
        nt = any(o[0] in ('newgroup', 'cmd-select', 'delay-append-newgroup') for o in seq[:-1])
        R.count(tuple(seq) if nt else None, 'collection-histories')
        if r is not None:
            i, bad = r
            kinds = sorted(set(o[0] for o in seq[:i + 1]))
            R.fail("wf|%s|%s" % (clause_kind(bad[0]), '+'.join(kinds)), "history %r: after step %d: %s" % (list(seq[:i + 1]), i, '; '.join(bad[:3])),
                   "from bounded.c06_groups import run_sequence\nr = run_sequence(%r)\nprint(r)\nsys.exit(1 if r else 0)\n" % (list(seq[:i + 1]),))
    for n in range(1, N + 1):
        for seq in itertools.product(OPS, repeat=n):
            one(seq)
    for _ in range(400 if tier == 'quick' else 6000):
        one(tuple(rng.choice(OPS) for _ in range(rng.randint(5, 9))))
    R.samples.append({"history": "newgroup, remove d1, cmd-select, undo, append d1, save-restore -> WF after every step"})
