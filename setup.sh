#!/bin/sh
# Builds the overlay interpreter /verif/.venv offline (idempotent).
# Python 3.12 venv on top of /venv (the repo's interpreter + deps) plus z3-solver etc. from the offline wheelhouse.
set -e
HERE="$(cd "$(dirname "$0")" && pwd)"
V="$HERE/.venv"
if [ -x "$V/bin/python" ] && "$V/bin/python" -c "import z3, numpy, icontract" >/dev/null 2>&1; then
    echo "setup: $V already usable"
    exit 0
fi
rm -rf "$V"
/venv/bin/python -m venv "$V"
SP="$("$V/bin/python" -c 'import sysconfig; print(sysconfig.get_paths()["purelib"])')"
echo "import site; site.addsitedir('/venv/lib/python3.12/site-packages')" > "$SP/_base.pth"
PIP_NO_INDEX=1 "$V/bin/python" -m pip install -q --no-index --find-links /opt/veriftools/wheels z3-solver icontract deal crosshair-tool 2>&1 | grep -v WARNING || true
"$V/bin/python" -c "import z3, numpy, icontract; print('setup: ok, z3', z3.get_version_string())"
